#!/bin/bash
# seedretry.sh <name> <srcdir> — phase A reported repository tests failing with the change while the machine was
# loaded (timing-sensitive tests). Re-run exactly those tests, alone, 3 times each, with the change applied, in a
# private network namespace; if they all pass the phase-A record is corrected, otherwise it stands.
set -u
name="$1"; src="$2"
pa=/verif/.scratch/phaseA-$name.txt
. "$pa"
[ -z "$suite_fail" ] && { echo "$name: nothing to retry"; exit 0; }
export GOFLAGS=-mod=mod GOPROXY=off
tests=$(echo "$suite_fail" | grep -o 'Test[A-Za-z0-9_]*' | sort -u | paste -sd'|')
wt=/tmp/seedv/$name-retry
rm -rf "$wt"; git -C /repo worktree prune; git -C /repo worktree add -q --detach "$wt" HEAD || exit 2
cd "$wt" && git apply "$src/patch.diff" || exit 3
out=$(unshare -n sh -c "ip link set lo up; timeout 900 go test -vet=off -count=3 -timeout 10m -run '^($tests)\$' . ./internal/... ./codec/... ./bytes/... ./util/... 2>&1")
cd /; git -C /repo worktree remove --force "$wt"; git -C /repo worktree prune
still=$(echo "$out" | grep -- '--- FAIL' | head -5)
echo "$name: retried [$tests] alone x3 with the change: still failing=[${still}]"
printf 'files=%q\nsuite_fail=%q\nok_with=%q\nok_without=%q\n' "$files" "$still" "$ok_with" "$ok_without" > "$pa"
