package checks

// C01 — exactly-once completion of every asynchronous operation, and
// C03 — Pending() accounting, RunPending termination, PollOne results.
// Both explore the driver in iodriver.go with E1 (worker processes; kernel-backed).
//
// C01 alphabet: start read/write/accept/readfrom/writeto (plain, forced-deferred, *All as deviations),
// peer send / half-close / close (hang-up on a FIFO) / RST / connect, cancel, close, poll; at every callback
// entry the handler behaviour is a deviation {nothing, re-issue, cancel self, close self, cancel other,
// cancel other whose cancellation callback re-arms, close other}. Oracle: per-operation callback count <= 1
// at all times; Cancel returns only after every in-flight operation of the object was completed once with
// a cancellation error; nothing is invoked after Close returned; delivered bytes are the peer's bytes;
// at the end the loop is polled (in-flight + 3) times and an operation that poll(2) reports as non-blocking
// must have completed.
// C03 adds timers, posts, regular files (not pollable) and descriptors closed underneath (registration
// fails), compares Pending() with the ledger after every action, judges every PollOne against the number
// of handlers that ran and against poll(2) on the epoll descriptor itself, and calls RunPending where the
// ledger says it must return.

import (
	"errors"
	"fmt"
	"golang.org/x/sys/unix"
	"os"
	"strings"
	"time"

	"github.com/talostrading/sonic"
	"github.com/talostrading/sonic/sonicerrors"
	"verifmc/engine"
	"verifmc/kern"
)

func ioPairs(kinds []string) [][2]string {
	var out [][2]string
	for i, a := range kinds {
		for _, b := range kinds[i:] {
			out = append(out, [2]string{a, b})
		}
	}
	return out
}

func ioBody(c03 bool, depth int, pairs [][2]string) func(x *engine.X) {
	return func(x *engine.X) {
		p := pairs[x.Pick(len(pairs), "object kinds")]
		d := newIODriver(x, c03)
		d.scratch = engine.Root + "/.scratch"
		x.Note("objects X=%s Y=%s", p[0], p[1])
		d.newObj(p[0], "X")
		if p[1] != "" {
			d.newObj(p[1], "Y")
		}
		d.checkPending("construction")
		d.run(depth)
	}
}

func c01DFS(tier string, st ioStage) *engine.DFS {
	return &engine.DFS{Name: stageName("io", tier, st), Body: ioBody(false, st.depth, append(ioPairs(ioKinds), [2]string{"reg", ""}, [2]string{"reg", "fifo-r"})), Procs: 16, WorkerProcs: 2, ShardDepth: 3,
		MaxDeviations: st.dev, MaxPoints: 200, HangTimeout: 20 * time.Second}
}

func C01(tier string) *engine.Report {
	rep := engine.NewReport("C01", tier, "exploration")
	var tot engine.DFSTotals
	done := runLadder(rep, &tot, tier, func(st ioStage) *engine.DFS { return c01DFS(tier, st) })
	if len(rep.Violations) == 0 {
		// a write the kernel takes in pieces (the driver's own writes are 3 bytes)
		bres := c01BigWriteDFS(tier).Run()
		tot.Add(bres, rep)
		rep.Coverage["big_writes"] = map[string]any{"executions": bres.Executions, "finished": bres.Exhaustive, "violations": len(bres.Violations),
			"space": "{Dial conn, accepted conn, FIFO write end} x AsyncWrite | AsyncWriteAll of 1 MiB (FIFO: 256 KiB) x peer drains at once | 16 KiB per step x started normally | at the dispatch limit"}
	}
	tot.Fill(rep, "all action sequences up to the depth bound over two real objects (all 28 unordered pairs of {Dial conn, accepted conn, FIFO read end, FIFO write end, packet conn, listener, AsyncAdapter}) sharing one IO, with raw-syscall peers, plus a regular file (which epoll refuses: its deferred operations complete with the registration error, once) alone and next to a FIFO; "+
		"start variants (forced-deferred, *All) and handler behaviours (re-issue, cancel/close self or other, re-arm on cancellation) are deviations, all combinations up to the bound; non-trivial = at least one action was taken", 0)
	fillLadder(rep, done, len(rep.Violations) > 0)
	rep.Assumptions = append(rep.Assumptions, "poll(2) on the object's descriptor is trusted as the readiness oracle", "the order of events inside one epoll batch is the kernel's; both start orders are enumerated, batch order itself is observed, not forced")
	return rep
}

func C01Replay(v engine.Violation, log func(string)) *engine.Violation {
	if strings.HasPrefix(v.Config, "bigwrite@") {
		return c01BigWriteDFS(v.Config[len("bigwrite@"):]).ReplayChoices(v.Choices)
	}
	tier, st := parseStage(v.Config)
	return c01DFS(tier, st).ReplayChoices(v.Choices)
}

// ---- C03 --------------------------------------------------------------------------------------------

func (d *ioDriver) timer() *ioTimer {
	if len(d.timers) > 0 {
		return d.timers[0]
	}
	fd := lowestFreeFd()
	t, err := sonic.NewTimer(d.ioc)
	if err != nil {
		engine.HarnessError("NewTimer: %v", err)
	}
	if k := kern.FdKind(fd); k != "anon_inode:[timerfd]" {
		engine.HarnessError("expected a timerfd at %d, found %q", fd, k)
	}
	it := &ioTimer{t: t, fd: fd}
	d.timers = append(d.timers, it)
	return it
}

func (d *ioDriver) c03Actions(add func(string, func())) {
	var t *ioTimer
	if len(d.timers) > 0 {
		t = d.timers[0]
	}
	if t == nil || (!t.closed && !t.armed) {
		for _, dur := range []time.Duration{time.Millisecond, 10 * time.Second} {
			dur := dur
			add(fmt.Sprintf("timer-once(%v)", dur), func() { d.armTimer(d.timer(), dur) })
		}
	}
	if t != nil && !t.closed {
		if t.armed {
			add("timer-cancel", func() {
				if err := t.t.Cancel(); err != nil {
					d.fail("timer.Cancel/error", "Cancel: %v", err)
				}
				t.armed = false
			})
		}
		add("timer-close", func() {
			if err := t.t.Close(); err != nil {
				d.fail("timer.Close/error", "Close: %v", err)
			}
			t.closed, t.armed = true, false
		})
	}
	if d.posts < 2 {
		add("post", func() {
			// as a deviation the posted handler posts another one while it runs (the loop is inside its dispatch then)
			again := d.x.Deviate(2, "the posted handler posts another handler") == 1
			d.posts++
			if err := d.ioc.Post(func() {
				d.posts--
				d.handlers++
				d.x.Note("  posted handler ran")
				if again {
					d.posts++
					if err := d.ioc.Post(func() { d.posts--; d.handlers++; d.x.Note("  handler posted from a handler ran") }); err != nil {
						d.fail("io.Post/error", "Post from a posted handler: %v", err)
					}
				}
			}); err != nil {
				d.fail("io.Post/error", "Post: %v", err)
			}
		})
	}
	if d.runPendingSafe() {
		add("RunPending", func() { d.runPending() })
	}
}

// armTimer schedules t once (it must be ready) and records it in the ledger.
func (d *ioDriver) armTimer(t *ioTimer, dur time.Duration) {
	err := t.t.ScheduleOnce(dur, func() {
		t.armed = false
		t.fired++
		d.handlers++
		d.x.Note("  timer fired")
	})
	if err != nil {
		d.fail("timer.ScheduleOnce/error", "ScheduleOnce(%v) on a ready timer: %v", dur, err)
	}
	t.armed, t.short = true, dur < time.Second
	if t.short {
		// own the timing: a short timer has always expired (the kernel says so) before the next action
		if !kern.AwaitReadable(t.fd, settleGuard) {
			// the kernel decides: a timer that is not even armed will never expire — that is the library's doing, not the
			// environment's, and RunPending would wait for it for ever
			var cur unix.ItimerSpec
			if err := unix.TimerfdGettime(t.fd, &cur); err == nil && cur.Value.Sec == 0 && cur.Value.Nsec == 0 {
				d.fail("timer/accepted-but-not-armed", "ScheduleOnce(%v) returned nil but the timerfd is neither armed nor expired; Pending()=%d counts a timer that can never fire", dur, d.ioc.Pending())
			}
			d.x.Inconclusive("timerfd did not expire")
		}
	}
}

// runPendingSafe: every in-flight operation is ready (or is a short timer), so RunPending must return.
func (d *ioDriver) runPendingSafe() bool {
	if d.ledger() == 0 {
		return false // covered by c03Finish
	}
	for _, op := range d.inflight() {
		if op.obj.broken {
			return false // its descriptor was closed underneath: it stays in flight until cancelled or closed
		}
		if !op.ready() {
			return false
		}
		if op.all && op.kind == "read" && !op.obj.eof && op.obj.sent-op.obj.got < len(op.buf) {
			return false // a ReadAll that cannot be filled yet stays in flight, and rightly so
		}
	}
	for _, t := range d.timers {
		if t.armed && !t.short {
			return false
		}
	}
	return true
}

func (d *ioDriver) runPending() {
	if got, want := d.ioc.Pending(), int64(d.ledger()); got != want {
		d.fail("io.Pending/before-RunPending/count", "Pending()=%d, operations in flight: %d (%s)", got, want, d.describeLedger())
	}
	before := d.describeLedger()
	d.quiet = true
	err := d.ioc.RunPending()
	d.quiet = false
	d.x.Note("RunPending -> %v", err)
	if err != nil {
		d.fail("io.RunPending/error", "RunPending returned %v", err)
	}
	if l := d.ledger(); l != 0 {
		d.fail("io.RunPending/returned-early", "RunPending returned while %d operations are still in flight (%s; before: %s)", l, d.describeLedger(), before)
	}
}

func (d *ioDriver) c03Finish() {
	if d.ledger() == 0 {
		if got := d.ioc.Pending(); got != 0 {
			d.fail("io.Pending/idle/count", "nothing is in flight but Pending()=%d: RunPending would block forever", got)
		}
		if err := d.ioc.RunPending(); err != nil {
			d.fail("io.RunPending/error", "RunPending with nothing in flight returned %v", err)
		}
	}
}

func c03DFS(tier string, st ioStage) *engine.DFS {
	depth, dev := st.depth, st.dev
	kinds := []string{"tcp", "fifo-r", "pkt", "lst", "adp"}
	pairs := [][2]string{}
	for _, k := range kinds {
		pairs = append(pairs, [2]string{k, ""})
	}
	pairs = append(pairs, [2]string{"tcp", "fifo-r"}, [2]string{"pkt", "lst"}, [2]string{"adp", "tcp"}, [2]string{"fifo-w", "fifo-r"})
	return &engine.DFS{Name: stageName("pending", tier, st), Body: ioBody(true, depth, pairs), Procs: 16, WorkerProcs: 2, ShardDepth: 3,
		MaxDeviations: dev, MaxPoints: 200, HangTimeout: 20 * time.Second}
}

func C03(tier string) *engine.Report {
	rep := engine.NewReport("C03", tier, "exploration")
	var tot engine.DFSTotals
	done := runLadder(rep, &tot, tier, func(st ioStage) *engine.DFS { return c03DFS(tier, st) })
	n, v := c03EINTR(tier)
	for _, vv := range v {
		rep.Add(vv)
	}
	tot.Fill(rep, "all action sequences up to the depth bound over one or two real objects plus a timer, posted handlers, a regular file (registration fails with EPERM) and descriptors closed underneath (EBADF); "+
		"Pending() is compared with the harness ledger after every action, every PollOne is judged against the handlers that ran and poll(2) on the epoll descriptor, RunPending is called wherever the ledger says it must return; "+
		"plus signal-interruption cases of the blocking wait; non-trivial = at least one action was taken", 0)
	fillLadder(rep, done, len(rep.Violations) > 0)
	rep.Coverage["eintr_cases"] = n
	rep.Coverage["evaluations"] = rep.Coverage["evaluations"].(int) + n
	return rep
}

func C03Replay(v engine.Violation, log func(string)) *engine.Violation {
	if v.Config == "eintr" {
		_, vs := c03EINTR("quick")
		for _, vv := range vs {
			if vv.Sig == v.Sig {
				return &vv
			}
		}
		return nil
	}
	tier, st := parseStage(v.Config)
	return c03DFS(tier, st).ReplayChoices(v.Choices)
}

var _ = errors.Is
var _ = sonicerrors.ErrTimeout
var _ = os.Getpid
