// Package vstream is a scripted, in-memory sonic.Stream: the harness decides what every read returns,
// whether asynchronous operations complete inline or are deferred, and how much a write accepts.
package vstream

import (
	"errors"
	"io"

	"github.com/talostrading/sonic"
	"github.com/talostrading/sonic/sonicerrors"
)

// ErrStarved is returned by a blocking Read when the script has no more input and no terminal event: the
// caller asked for more bytes than the peer ever sent. Checks treat it as "would block forever".
var ErrStarved = errors.New("vstream: script exhausted (a real transport would block)")

type pendingOp struct {
	b   []byte
	cb  sonic.AsyncCallback
	all bool
	got int
}

type Stream struct {
	In   [][]byte // queued inbound segments
	Term error    // delivered once In is drained (nil: reads starve)
	Out  []byte   // bytes accepted from writes, in order

	DeferRead  func() bool     // nil = inline
	DeferWrite func() bool     // nil = inline
	Accept     func(n int) int // blocking Write: bytes accepted of n (nil = all)
	// AsyncAccept: bytes one attempt of an asynchronous write takes of the n that are left (nil = all). A plain
	// AsyncWrite completes with what the first attempt took (that is its contract); an AsyncWriteAll stays in flight
	// and takes more with every StepWrite until everything is out.
	AsyncAccept func(n int) int
	WriteErr    func() error // consulted before every write; non-nil fails the write having taken nothing

	PendingRead  *pendingOp
	PendingWrite *pendingOp
	Overlap      string // set when a second operation of a kind is started while one is pending
	Closed       bool
	Reads        int
	Writes       int
	Starved      bool // an async read is parked because the script has nothing more
}

var _ sonic.Stream = (*Stream)(nil)

func New() *Stream { return &Stream{} }

func (s *Stream) Feed(seg []byte) {
	if len(seg) > 0 {
		s.In = append(s.In, seg)
	}
}

func (s *Stream) InLen() int {
	n := 0
	for _, seg := range s.In {
		n += len(seg)
	}
	return n
}

func (s *Stream) RawFd() int { return -1 }

func (s *Stream) take(b []byte) int {
	if len(s.In) == 0 {
		return 0
	}
	n := copy(b, s.In[0])
	if n == len(s.In[0]) {
		s.In = s.In[1:]
	} else {
		s.In[0] = s.In[0][n:]
	}
	return n
}

func (s *Stream) Read(b []byte) (int, error) {
	s.Reads++
	if len(b) == 0 {
		// like sonic's file/conn: read(2) into an empty buffer returns 0, which they report as io.EOF
		return 0, io.EOF
	}
	if len(s.In) > 0 {
		return s.take(b), nil
	}
	if s.Term != nil {
		return 0, s.Term
	}
	return 0, ErrStarved
}

// tryCompleteRead completes the pending read if the script allows; returns whether it did.
func (s *Stream) tryCompleteRead() bool {
	p := s.PendingRead
	if p == nil {
		return false
	}
	for {
		if len(s.In) > 0 {
			p.got += s.take(p.b[p.got:])
			if p.all && p.got < len(p.b) {
				continue
			}
			s.PendingRead = nil
			s.Starved = false
			p.cb(nil, p.got)
			return true
		}
		if s.Term != nil {
			s.PendingRead = nil
			s.Starved = false
			p.cb(s.Term, p.got)
			return true
		}
		s.Starved = true
		return false
	}
}

func (s *Stream) asyncRead(b []byte, all bool, cb sonic.AsyncCallback) {
	s.Reads++
	if s.PendingRead != nil {
		s.Overlap = "read"
	}
	if len(b) == 0 {
		cb(io.EOF, 0)
		return
	}
	s.PendingRead = &pendingOp{b: b, cb: cb, all: all}
	if s.DeferRead != nil && s.DeferRead() {
		return
	}
	s.tryCompleteRead()
}

func (s *Stream) AsyncRead(b []byte, cb sonic.AsyncCallback)    { s.asyncRead(b, false, cb) }
func (s *Stream) AsyncReadAll(b []byte, cb sonic.AsyncCallback) { s.asyncRead(b, true, cb) }

func (s *Stream) Write(b []byte) (int, error) {
	s.Writes++
	if s.WriteErr != nil {
		if err := s.WriteErr(); err != nil {
			return 0, err
		}
	}
	k := len(b)
	if s.Accept != nil {
		k = s.Accept(len(b))
	}
	s.Out = append(s.Out, b[:k]...)
	return k, nil
}

func (s *Stream) completeWrite() bool {
	p := s.PendingWrite
	if p == nil {
		return false
	}
	if s.WriteErr != nil {
		if err := s.WriteErr(); err != nil {
			s.PendingWrite = nil
			p.cb(err, p.got)
			return true
		}
	}
	// the bytes are taken from the caller's slice now: a buffer mutated while the write was in flight
	// shows on the wire exactly as it would with a real socket
	rem := p.b[p.got:]
	k := len(rem)
	if s.AsyncAccept != nil {
		k = s.AsyncAccept(len(rem))
	}
	s.Out = append(s.Out, rem[:k]...)
	p.got += k
	if p.all && p.got < len(p.b) {
		return true // progress; the rest waits for the next step
	}
	s.PendingWrite = nil
	p.cb(nil, p.got)
	return true
}

func (s *Stream) asyncWrite(b []byte, all bool, cb sonic.AsyncCallback) {
	s.Writes++
	if s.PendingWrite != nil {
		s.Overlap = "write"
	}
	s.PendingWrite = &pendingOp{b: b, cb: cb, all: all}
	if s.DeferWrite != nil && s.DeferWrite() {
		return
	}
	s.completeWrite()
}

func (s *Stream) AsyncWrite(b []byte, cb sonic.AsyncCallback)    { s.asyncWrite(b, false, cb) }
func (s *Stream) AsyncWriteAll(b []byte, cb sonic.AsyncCallback) { s.asyncWrite(b, true, cb) }

// StepRead / StepWrite complete a deferred operation (one "poll cycle" of the scripted transport).
func (s *Stream) StepRead() bool  { return s.tryCompleteRead() }
func (s *Stream) StepWrite() bool { return s.completeWrite() }

// Drain completes deferred operations until none can make progress; returns the number completed.
func (s *Stream) Drain(limit int) int {
	n := 0
	for n < limit {
		if s.StepWrite() || s.StepRead() {
			n++
			continue
		}
		break
	}
	return n
}

func (s *Stream) Cancel() {
	if p := s.PendingRead; p != nil {
		s.PendingRead = nil
		p.cb(sonicerrors.ErrCancelled, p.got)
	}
	if p := s.PendingWrite; p != nil {
		s.PendingWrite = nil
		p.cb(sonicerrors.ErrCancelled, p.got)
	}
}

func (s *Stream) Close() error {
	s.Closed = true
	return nil
}
