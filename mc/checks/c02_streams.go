package checks

// C02 — byte-stream fidelity and the ReadAll/WriteAll contract.
//
// Engine E1 over real descriptors. Scenarios (first choice point):
//   read/<kind>   kind in {Dial conn, accepted conn, FIFO file, AsyncAdapter on a socketpair}: a stream of
//                 N bytes is sent by the raw peer as EVERY composition of N (each chunk awaited on the
//                 receiving descriptor), read with AsyncRead or AsyncReadAll into buffers of 1,2,3,5,8 bytes,
//                 re-issued from the callback; 0/1/2 polls after each chunk; the first read started before or
//                 after the first chunk, inline or forced-deferred; the peer closes at the end; optionally a
//                 write is in flight on the same object meanwhile.
//   write/fifo    AsyncWrite / AsyncWriteAll of {1,4096,4097,6000,8192,8193,12289} bytes into a FIFO of one or
//                 two pages; the raw reader drains a page / everything / nothing between polls — partial writes
//                 of a pipe are deterministic (a non-blocking write takes exactly the free pages).
//   write/tcp     AsyncWrite / AsyncWriteAll of {1, 100000} bytes on a conn with minimal SO_SNDBUF; the kernel
//                 chooses the split (recorded), totals and content are judged.
//   chain         33/34/70 reads or writes, each issued from the previous one's completion callback with a buffer of
//                 its own (1..5 bytes, distinct content), over Dial conn / accepted conn / FIFO / adapter: the
//                 chain crosses the dispatch limit, where an operation is parked without having been tried.
//   adapter/read, adapter/write   AsyncAdapter whose io.ReadWriter is scripted: every call returns what the
//                 explorer picks (all, 1 byte, error, 1 byte + error); the socketpair only supplies readiness.
// Oracle: position-dependent byte generator; bytes in caller buffers / at the raw peer are exactly the
// generator's prefix, in order; the callback count equals the bytes that operation moved; *All success
// implies n == len(b); on error n <= bytes transferred; every callback exactly once; nothing lost at the end.

import (
	"errors"
	"fmt"
	"io"
	"net"
	"os"
	"strings"
	"syscall"
	"time"

	"github.com/talostrading/sonic"
	"github.com/talostrading/sonic/sonicerrors"
	"verifmc/engine"
	"verifmc/kern"
)

func genByte(i int) byte { return byte(i*13 + 7 + i/251) }

func genBytes(from, n int) []byte {
	b := make([]byte, n)
	for i := range b {
		b[i] = genByte(from + i)
	}
	return b
}

func compositions(n int) [][]int {
	var out [][]int
	for mask := 0; mask < 1<<(n-1); mask++ {
		var c []int
		run := 1
		for i := 0; i < n-1; i++ {
			if mask&(1<<i) != 0 {
				c = append(c, run)
				run = 1
			} else {
				run++
			}
		}
		out = append(out, append(c, run))
	}
	return out
}

type c02Reader struct {
	x     *engine.X
	d     *ioDriver
	o     *ioObj
	B     int
	all   bool
	N     int
	pos   int  // bytes delivered
	sent  int  // bytes the peer has sent
	done  bool // a read reported an error (EOF)
	reads int
	infl  bool
	// window: every buffer handed to a read is a window into a larger array (len < cap) guarded by canaries
	window bool
	// rearmOnCancel: a cancellation callback starts the same read again (it may be satisfied in part at once)
	rearmOnCancel bool
}

func (r *c02Reader) issue(forced bool) {
	buf := make([]byte, r.B)
	var arena []byte
	if r.window {
		arena = make([]byte, r.B+24)
		for i := range arena {
			arena[i] = 0xC7
		}
		buf = arena[8 : 8+r.B]
	}
	r.reads++
	id := r.reads
	calls := 0
	r.infl = true
	cb := func(err error, n int) {
		calls++
		r.infl = false
		r.x.Note("  read#%d -> err=%v n=%d", id, err, n)
		if calls > 1 {
			r.x.Fail("stream.read/callback-twice", "read#%d: callback ran %d times", id, calls)
		}
		if n < 0 || n > len(buf) {
			r.x.Fail("stream.read/count-out-of-range", "read#%d: n=%d with a %d-byte buffer", id, n, len(buf))
		}
		for i, c := range arena {
			if (i < 8 || i >= 8+r.B) && c != 0xC7 {
				r.x.Fail("stream.read/wrote-outside-buffer", "read#%d into a %d-byte window of a larger array changed byte %d of the array, outside the window", id, r.B, i)
			}
		}
		if r.pos+n > r.sent {
			r.x.Fail("stream.read/bytes-invented", "read#%d reports %d bytes, only %d were sent and undelivered", id, n, r.sent-r.pos)
		}
		for i := 0; i < n; i++ {
			if buf[i] != genByte(r.pos+i) {
				r.x.Fail("stream.read/wrong-bytes", "read#%d: stream byte %d delivered as %#x, the peer wrote %#x (lost, duplicated or reordered)", id, r.pos+i, buf[i], genByte(r.pos+i))
			}
		}
		r.pos += n
		if err == nil {
			if n == 0 {
				r.x.Fail("stream.read/success-without-bytes", "read#%d completed with (nil, 0)", id)
			}
			if r.all && n != len(buf) {
				r.x.Fail("file.ReadAll/short-success", "AsyncReadAll(%d) reported success with n=%d", len(buf), n)
			}
			if r.reads < 64 {
				r.issue(false)
			}
			return
		}
		if r.rearmOnCancel && errors.Is(err, sonicerrors.ErrCancelled) && r.reads < 64 {
			r.issue(false)
			return
		}
		r.done = true
	}
	saved := r.d.ioc.Dispatched
	if forced {
		r.d.ioc.Dispatched = sonic.MaxCallbackDispatch
	}
	if r.all {
		r.o.fdo.AsyncReadAll(buf, cb)
	} else {
		r.o.fdo.AsyncRead(buf, cb)
	}
	if forced {
		r.d.ioc.Dispatched = saved
	}
}

func c02Read(x *engine.X, kind string, maxN int) {
	d := newIODriver(x, false)
	o := d.newObj(kind, "X")
	N := 1 + x.Pick(maxN, "stream length")
	comps := compositions(N)
	comp := comps[x.Pick(len(comps), "composition")]
	sizes := []int{1, 2, 3, 5, 8}
	r := &c02Reader{x: x, d: d, o: o, B: sizes[x.Pick(len(sizes), "buffer size")], all: x.Pick(2, "AsyncRead/AsyncReadAll") == 1, N: N}
	r.window = x.Deviate(2, "buffers are windows into a larger array") == 1
	late := x.Deviate(2, "first read started after the first chunk") == 1
	forced := x.Deviate(2, "first read forced-deferred") == 1
	var wcalls int
	if kind != "fifo-r" && x.Deviate(2, "a write in flight on the same object") == 1 {
		d.ioc.Dispatched = sonic.MaxCallbackDispatch
		o.fdo.AsyncWrite([]byte{1, 2, 3}, func(err error, n int) { wcalls++ })
		d.ioc.Dispatched = 0
	} else {
		wcalls = -1
	}
	x.Note("read/%s N=%d composition=%v B=%d all=%v late=%v forced=%v", kind, N, comp, r.B, r.all, late, forced)
	if len(comp) > 1 {
		x.Nontrivial()
	}
	if !late {
		r.issue(forced)
	}
	for i, c := range comp {
		if _, err := syscall.Write(o.peer, genBytes(r.sent, c)); err != nil {
			x.Inconclusive("peer write: " + err.Error())
		}
		r.sent += c
		if !kern.AwaitReadReady(o.rawfd, settleGuard) {
			x.Inconclusive("chunk did not arrive")
		}
		if i == 0 && late {
			r.issue(forced)
		}
		if i == 0 && !late && x.Deviate(2, "the pending read is cancelled once a chunk has arrived and re-issued from the cancellation callback") == 1 {
			// the re-issued read finds the chunk in the socket: a ReadAll is satisfied in part at once and parks again
			r.rearmOnCancel = true
			o.fdo.Cancel()
			r.rearmOnCancel = false
		}
		polls := []int{1, 0, 2}[x.Deviate(3, "polls after the chunk")]
		for p := 0; p < polls; p++ {
			d.ioc.PollOne()
		}
	}
	// the peer closes: everything in flight terminates
	if kind == "fifo-r" {
		syscall.Close(o.peer)
	} else {
		syscall.Shutdown(o.peer, syscall.SHUT_WR)
	}
	kern.AwaitReadReady(o.rawfd, settleGuard)
	for i := 0; i < 3*N+8 && !r.done; i++ {
		d.ioc.PollOne()
	}
	if !r.done {
		x.Fail("stream.read/never-terminates", "the peer closed after %d bytes; after %d polls no read has reported the end of the stream (delivered %d, read in flight: %v)", N, 3*N+8, r.pos, r.infl)
	}
	if r.pos != N {
		x.Fail("stream.read/bytes-lost", "the peer wrote %d bytes and closed; reads delivered %d", N, r.pos)
	}
	if wcalls == 0 {
		d.ioc.PollOne()
	}
	if wcalls != -1 && wcalls != 1 {
		x.Fail("stream.write/callback-count", "the concurrent write completed %d times", wcalls)
	}
	x.Outcome(fmt.Sprintf("read/%s/%dreads", kind, min(r.reads, 9)))
}

func c02WriteFifo(x *engine.X) {
	d := newIODriver(x, false)
	pages := 1 + x.Pick(2, "pipe pages")
	sizes := []int{1, 4096, 4097, 6000, 8192, 8193, 12289}
	n := sizes[x.Pick(len(sizes), "write size")]
	all := x.Pick(2, "AsyncWrite/AsyncWriteAll") == 1
	rfd, wfd, err := kern.Pipe(pages * 4096)
	if err != nil {
		engine.HarnessError("pipe: %v", err)
	}
	f, err := sonic.Open(d.ioc, fmt.Sprintf("/proc/self/fd/%d", wfd), syscall.O_WRONLY|syscall.O_NONBLOCK, 0)
	syscall.Close(wfd)
	if err != nil {
		engine.HarnessError("Open: %v", err)
	}
	x.Defer(func() { f.Close(); syscall.Close(rfd) })
	prefill := []int{0, 1, 4096}[x.Deviate(3, "pipe pre-filled")]
	if prefill > 0 {
		syscall.Write(f.RawFd(), make([]byte, prefill))
	}
	buf := genBytes(0, n)
	calls := 0
	var cerr error
	var cn int
	cb := func(err error, m int) { calls++; cerr, cn = err, m }
	forced := x.Deviate(2, "forced-deferred") == 1
	if forced {
		d.ioc.Dispatched = sonic.MaxCallbackDispatch
	}
	if all {
		f.AsyncWriteAll(buf, cb)
	} else {
		f.AsyncWrite(buf, cb)
	}
	d.ioc.Dispatched = 0
	x.Note("write/fifo pages=%d n=%d all=%v prefill=%d forced=%v", pages, n, all, prefill, forced)
	x.Nontrivial()
	// The reader keeps everything it reads (raw); bytes that are not the operation's own — the pre-fill and what a
	// second writer put into the pipe — are known by their absolute stream offsets and cut out before comparing.
	var raw []byte
	var foreign [][2]int
	if prefill > 0 {
		foreign = append(foreign, [2]int{0, prefill})
	}
	drain := func(max int) {
		b := make([]byte, max)
		m, err := syscall.Read(rfd, b)
		if err == nil && m > 0 {
			raw = append(raw, b[:m]...)
		}
	}
	refills := 0
	for step := 0; step < 12 && calls == 0; step++ {
		// A second writer on the same pipe (a handler posted to the loop, so it runs in the same poll cycle, ahead of
		// the write's readiness event) takes all the room the reader is about to make: the resumed write finds the
		// pipe full again and has to be parked a second time, with the progress it has made so far.
		if refills < 2 && x.Deviate(2, "a second writer refills the pipe in the same poll cycle") == 1 {
			refills++
			d.ioc.Post(func() {
				start := len(raw) + kern.Inq(rfd)
				k := 0
				fill := make([]byte, 4096)
				for {
					m, err := syscall.Write(f.RawFd(), fill)
					if err != nil || m <= 0 {
						break
					}
					k += m
				}
				if k > 0 {
					foreign = append(foreign, [2]int{start, start + k})
				}
			})
		}
		switch x.Deviate(3, "reader drains a page / nothing / everything") {
		case 0:
			drain(4096)
		case 2:
			drain(1 << 16)
		}
		d.ioc.PollOne()
	}
	for i := 0; i < 8; i++ {
		drain(1 << 16)
		if calls == 0 {
			d.ioc.PollOne()
		}
	}
	drain(1 << 16)
	if calls != 1 {
		x.Fail("stream.write/callback-count", "write of %d bytes: callback ran %d times although the reader drained the pipe", n, calls)
	}
	var got []byte
	for i, c := range raw {
		own := true
		for _, r := range foreign {
			if i >= r[0] && i < r[1] {
				own = false
			}
		}
		if own {
			got = append(got, c)
		}
	}
	for i := range got {
		if i >= n || got[i] != genByte(i) {
			x.Fail("stream.write/wrong-bytes", "byte %d of what the operation put into the pipe is %#x; it was asked to write %d bytes and byte %d is %#x (foreign ranges %v)", i, got[i], n, i, genByte(i), foreign)
		}
	}
	if cn != len(got) {
		x.Fail("stream.write/count-vs-moved", "the callback reports %d bytes (err=%v), the reader received %d (foreign ranges %v)", cn, cerr, len(got), foreign)
	}
	if cerr == nil {
		if all && cn != n {
			x.Fail("file.WriteAll/short-success", "AsyncWriteAll(%d) reported success with n=%d", n, cn)
		}
		if cn <= 0 {
			x.Fail("stream.write/success-without-bytes", "write completed with (nil, %d)", cn)
		}
	}
	x.Outcome(fmt.Sprintf("write/fifo/n=%d", cn))
}

func c02WriteTCP(x *engine.X) {
	d := newIODriver(x, false)
	kind := []string{"tcp", "acc"}[x.Pick(2, "Dial/accepted")]
	o := d.newObj(kind, "X")
	n := []int{1, 100000}[x.Pick(2, "write size")]
	all := x.Pick(2, "AsyncWrite/AsyncWriteAll") == 1
	syscall.SetsockoptInt(o.rawfd, syscall.SOL_SOCKET, syscall.SO_SNDBUF, 1)
	syscall.SetsockoptInt(o.peer, syscall.SOL_SOCKET, syscall.SO_RCVBUF, 8192)
	buf := genBytes(0, n)
	calls := 0
	var cerr error
	var cn int
	cb := func(err error, m int) { calls++; cerr, cn = err, m }
	// As a deviation a read is pending on the same connection, and its completion (the peer sends one byte while the
	// large write is parked half-way) cancels the object: the write then reports a cancellation with the count moved
	// so far — and not one byte more may reach the peer afterwards.
	cancelOnRead := n > 1 && x.Deviate(2, "a pending read's completion cancels the object while the write is parked") == 1
	byteSent := false
	if cancelOnRead {
		o.fdo.AsyncRead(make([]byte, 4), func(err error, m int) {
			if err == nil {
				x.Note("  read completed: Cancel()")
				o.fdo.Cancel()
			}
		})
	}
	if all {
		o.fdo.AsyncWriteAll(buf, cb)
	} else {
		o.fdo.AsyncWrite(buf, cb)
	}
	x.Note("write/%s n=%d all=%v cancelOnRead=%v", kind, n, all, cancelOnRead)
	x.Nontrivial()
	var got []byte
	rb := make([]byte, 1<<15)
	polls := 0
	// The kernel moves the data at its own pace (tiny windows, delayed ACKs): await it, do not predict it.
	guard := time.Now().Add(30 * time.Second)
	for calls == 0 {
		if time.Now().After(guard) {
			x.Inconclusive("TCP transfer did not finish within the liveness guard")
		}
		if kern.Poll(o.peer, 1 /*POLLIN*/, 20)&1 != 0 {
			m, err := syscall.Read(o.peer, rb)
			if err == nil {
				got = append(got, rb[:m]...)
			}
		}
		if len(got) >= n && !kern.WouldNotBlockWrite(o.rawfd) {
			continue
		}
		if cancelOnRead && !byteSent && len(got) > 0 && kern.WouldNotBlockWrite(o.rawfd) {
			// the socket is writable again (the peer has just read) and now also readable: one event carries both
			syscall.Write(o.peer, []byte{7})
			kern.AwaitReadReady(o.rawfd, settleGuard)
			byteSent = true
		}
		d.ioc.PollOne()
		polls++
	}
	if cancelOnRead {
		// whatever the cancelled write was still going to do, it would do it in the next cycles
		for i := 0; i < 3; i++ {
			d.ioc.PollOne()
		}
		for kern.Poll(o.peer, 1, 30)&1 != 0 {
			m, err := syscall.Read(o.peer, rb)
			if err != nil || m <= 0 {
				break
			}
			got = append(got, rb[:m]...)
		}
	}
	if calls != 1 {
		x.Fail("stream.write/callback-count", "TCP write of %d bytes: callback ran %d times after %d drain+poll rounds", n, calls, polls)
	}
	// collect what is still in flight
	dl := time.Now().Add(settleGuard)
	for len(got) < cn && time.Now().Before(dl) {
		kern.AwaitReadReady(o.peer, 100*time.Millisecond)
		m, err := syscall.Read(o.peer, rb)
		if err == nil {
			got = append(got, rb[:m]...)
		}
	}
	if len(got) != cn {
		x.Fail("stream.write/count-vs-moved", "the callback reports %d bytes (err=%v), the peer received %d", cn, cerr, len(got))
	}
	for i := range got {
		if got[i] != genByte(i) {
			x.Fail("stream.write/wrong-bytes", "byte %d arrived as %#x, written %#x", i, got[i], genByte(i))
		}
	}
	if cerr == nil && all && cn != n {
		x.Fail("file.WriteAll/short-success", "AsyncWriteAll(%d) reported success with n=%d", n, cn)
	}
	x.Outcome(fmt.Sprintf("write/%s/polls>1=%v", kind, polls > 1))
}

// ---- scripted adapter -------------------------------------------------------------------------------

type scriptRW struct {
	x        *engine.X
	N        int // bytes the "peer" will ever supply
	handed   int // bytes handed out by Read
	accepted []byte
	failed   bool
}

func (s *scriptRW) Read(p []byte) (int, error) {
	rem := s.N - s.handed
	if rem == 0 {
		return 0, io.EOF
	}
	k := min(len(p), rem)
	switch s.x.Deviate(4, "scripted Read: all/1 byte/error/1 byte+error") {
	case 1:
		k = 1
	case 2:
		s.failed = true
		return 0, errScripted
	case 3:
		copy(p, genBytes(s.handed, 1))
		s.handed++
		s.failed = true
		return 1, errScripted
	}
	copy(p, genBytes(s.handed, k))
	s.handed += k
	return k, nil
}

func (s *scriptRW) Write(p []byte) (int, error) {
	k := len(p)
	switch s.x.Deviate(4, "scripted Write: all/1 byte/error/1 byte+error") {
	case 1:
		k = 1
	case 2:
		s.failed = true
		return 0, errScripted
	case 3:
		s.accepted = append(s.accepted, p[:1]...)
		s.failed = true
		return 1, errScripted
	}
	s.accepted = append(s.accepted, p[:k]...)
	return k, nil
}

func c02Adapter(x *engine.X, write bool, maxN int) {
	d := newIODriver(x, false)
	a, b, err := kern.SocketPair()
	if err != nil {
		engine.HarnessError("socketpair: %v", err)
	}
	f := os.NewFile(uintptr(a), "sp")
	c, err := net.FileConn(f)
	f.Close()
	if err != nil {
		engine.HarnessError("FileConn: %v", err)
	}
	syscall.Write(b, []byte{0}) // the socket stays readable: readiness token
	N := 1 + x.Pick(maxN, "stream length")
	rw := &scriptRW{x: x, N: N}
	var ad *sonic.AsyncAdapter
	sonic.NewAsyncAdapter(d.ioc, c.(syscall.Conn), rw, func(err error, aa *sonic.AsyncAdapter) { ad = aa })
	x.Defer(func() { ad.Close(); c.Close(); syscall.Close(b) })
	all := x.Pick(2, "plain/*All") == 1
	x.Nontrivial()
	if write {
		buf := genBytes(0, N)
		calls := 0
		var cerr error
		var cn int
		cb := func(err error, m int) { calls++; cerr, cn = err, m }
		if all {
			ad.AsyncWriteAll(buf, cb)
		} else {
			ad.AsyncWrite(buf, cb)
		}
		for i := 0; i < 2*N+4 && calls == 0; i++ {
			d.ioc.PollOne()
		}
		x.Note("adapter/write N=%d all=%v -> calls=%d err=%v n=%d accepted=%d", N, all, calls, cerr, cn, len(rw.accepted))
		if calls != 1 {
			x.Fail("adapter.write/callback-count", "callback ran %d times", calls)
		}
		for i := range rw.accepted {
			if rw.accepted[i] != genByte(i) {
				x.Fail("adapter.write/wrong-bytes", "byte %d handed to the writer as %#x (duplicated or skipped)", i, rw.accepted[i])
			}
		}
		if cn != len(rw.accepted) {
			x.Fail("adapter.write/count-vs-moved", "callback reports %d bytes (err=%v), the writer accepted %d", cn, cerr, len(rw.accepted))
		}
		if cerr == nil && all && cn != N {
			x.Fail("adapter.WriteAll/short-success", "AsyncWriteAll(%d) reported success with n=%d", N, cn)
		}
		if cerr == nil && rw.failed {
			x.Fail("adapter.write/error-swallowed", "the writer failed but the operation reported success")
		}
		x.Outcome(fmt.Sprintf("adapter/write/err=%v", cerr != nil))
		return
	}
	sizes := []int{1, 2, 3, 5, 8}
	B := sizes[x.Pick(len(sizes), "buffer size")]
	pos := 0
	done := false
	reads := 0
	var issue func()
	issue = func() {
		buf := make([]byte, B)
		reads++
		calls := 0
		cb := func(err error, n int) {
			calls++
			if calls > 1 {
				x.Fail("adapter.read/callback-twice", "callback ran %d times", calls)
			}
			if n < 0 || n > B || pos+n > rw.handed {
				x.Fail("adapter.read/bytes-invented", "n=%d with %d handed out and %d delivered", n, rw.handed, pos)
			}
			for i := 0; i < n; i++ {
				if buf[i] != genByte(pos+i) {
					x.Fail("adapter.read/wrong-bytes", "stream byte %d delivered as %#x", pos+i, buf[i])
				}
			}
			pos += n
			if err == nil {
				if n == 0 {
					x.Fail("adapter.read/success-without-bytes", "(nil, 0)")
				}
				if all && n != B {
					x.Fail("adapter.ReadAll/short-success", "AsyncReadAll(%d) reported success with n=%d", B, n)
				}
				if reads < 32 {
					issue()
				}
				return
			}
			done = true
		}
		if all {
			ad.AsyncReadAll(buf, cb)
		} else {
			ad.AsyncRead(buf, cb)
		}
	}
	issue()
	for i := 0; i < 3*N+6 && !done; i++ {
		d.ioc.PollOne()
	}
	x.Note("adapter/read N=%d B=%d all=%v -> delivered=%d handed=%d", N, B, all, pos, rw.handed)
	if !done {
		x.Fail("adapter.read/never-terminates", "after %d polls no read reported the end/error (delivered %d of %d handed out)", 3*N+6, pos, rw.handed)
	}
	if pos != rw.handed {
		x.Fail("adapter.read/bytes-lost", "the reader handed out %d bytes, callbacks delivered %d", rw.handed, pos)
	}
	x.Outcome(fmt.Sprintf("adapter/read/failed=%v", rw.failed))
}

// c02Chain: a message pump. Every completion callback issues the next operation with a buffer of its own, so
// the chain nests until the dispatch limit defers an element to the poller, then continues from there. Writes:
// M distinct messages of 1..5 bytes; the raw peer must receive their concatenation, each callback reports its
// own message's length, once. Reads: the peer has sent everything up front; every read gets a fresh buffer
// and must deliver the next bytes of the stream into it.
func c02Chain(x *engine.X) {
	d := newIODriver(x, false)
	write := x.Pick(2, "read chain / write chain") == 1
	kinds := []string{"tcp", "acc", "fifo-r", "adp"}
	if write {
		kinds = []string{"tcp", "acc", "fifo-w", "adp"}
	}
	kind := kinds[x.Pick(len(kinds), "object kind")]
	o := d.newObj(kind, "X")
	M := []int{34, 33, 70}[x.Pick(3, "chain length")]
	all := x.Pick(2, "plain / All") == 1
	if kind == "fifo-w" {
		// a pipe reports itself writable only while it has a free slot, although a small write would still be
		// merged into the last, partly filled one: with the driver's one-slot pipe the element parked at the
		// dispatch limit would wait for a reader. Sixteen slots keep "can complete at once" true for the whole chain.
		syscall.Syscall(syscall.SYS_FCNTL, uintptr(o.rawfd), 1031 /* F_SETPIPE_SZ */, 1<<16)
	}
	x.Note("chain write=%v kind=%s M=%d all=%v", write, kind, M, all)
	x.Nontrivial()
	lens := make([]int, M)
	offs := make([]int, M+1)
	for i := range lens {
		lens[i] = 1 + (i*7)%5
		offs[i+1] = offs[i] + lens[i]
	}
	total := offs[M]
	calls := make([]int, M)
	done := 0
	if !write {
		if _, err := syscall.Write(o.peer, genBytes(0, total)); err != nil {
			x.Inconclusive("peer write: " + err.Error())
		}
		if kind != "fifo-r" && !kern.AwaitInq(o.rawfd, total, settleGuard) {
			x.Inconclusive("stream did not arrive")
		}
	}
	pos := 0
	var issue func(i int)
	issue = func(i int) {
		var buf []byte
		if write {
			buf = genBytes(offs[i], lens[i])
		} else {
			buf = make([]byte, lens[i])
		}
		cb := func(err error, n int) {
			calls[i]++
			if calls[i] > 1 {
				x.Fail("stream.chain/callback-twice", "element %d of the chain: callback ran %d times", i, calls[i])
			}
			if write {
				if err != nil || n != lens[i] {
					x.Fail("stream.chain/write-result", "write %d of the chain (%d bytes, kind %s) completed with (%v,%d)", i, lens[i], kind, err, n)
				}
			} else {
				if err != nil || n < 1 || n > lens[i] || (all && n != lens[i]) {
					x.Fail("stream.chain/read-result", "read %d of the chain (%d-byte buffer, all=%v, kind %s) completed with (%v,%d) although the whole stream is queued", i, lens[i], all, kind, err, n)
				}
				for k := 0; k < n && k < len(buf); k++ {
					if buf[k] != genByte(pos+k) {
						x.Fail("stream.read/wrong-bytes", "read %d of the chain: stream byte %d delivered as %#x into the buffer handed to this read, the peer wrote %#x", i, pos+k, buf[k], genByte(pos+k))
					}
				}
				pos += n
			}
			done++
			if i+1 < M {
				issue(i + 1)
			}
		}
		switch {
		case write && all:
			o.fdo.AsyncWriteAll(buf, cb)
		case write:
			o.fdo.AsyncWrite(buf, cb)
		case all:
			o.fdo.AsyncReadAll(buf, cb)
		default:
			o.fdo.AsyncRead(buf, cb)
		}
	}
	issue(0)
	for i := 0; i < M+8 && done < M; i++ {
		d.ioc.PollOne()
	}
	if done != M {
		x.Fail("stream.chain/incomplete", "%d of %d chained operations completed after %d polls (kind %s, write=%v)", done, M, M+8, kind, write)
	}
	if d.ioc.Dispatched != 0 {
		x.Fail("stream.chain/dispatched-not-zero", "IO.Dispatched=%d after the chain", d.ioc.Dispatched)
	}
	if write {
		var got []byte
		b := make([]byte, 4096)
		for {
			if kind != "fifo-w" && kern.Inq(o.peer) == 0 {
				break
			}
			m, err := syscall.Read(o.peer, b)
			if err != nil || m <= 0 {
				break
			}
			got = append(got, b[:m]...)
		}
		want := genBytes(0, total)
		if string(got) != string(want) {
			at := 0
			for at < len(got) && at < len(want) && got[at] == want[at] {
				at++
			}
			x.Fail("stream.write/wrong-bytes", "a chain of %d writes (%d bytes) on %s: the peer received %d bytes, first difference at offset %d", M, total, kind, len(got), at)
		}
	}
	x.Outcome(fmt.Sprintf("chain/%v/%s/%d", write, kind, M))
}

func c02Body(tier string) func(x *engine.X) {
	maxN, maxA := 5, 4
	if tier == "thorough" {
		maxN, maxA = 8, 6
	}
	scen := []string{"read/tcp", "read/acc", "read/fifo-r", "read/adp", "write/fifo", "write/tcp", "adapter/read", "adapter/write", "chain"}
	return func(x *engine.X) {
		s := scen[x.Pick(len(scen), "scenario")]
		switch s {
		case "chain":
			c02Chain(x)
		case "write/fifo":
			c02WriteFifo(x)
		case "write/tcp":
			c02WriteTCP(x)
		case "adapter/read":
			c02Adapter(x, false, maxA)
		case "adapter/write":
			c02Adapter(x, true, maxA)
		default:
			c02Read(x, s[5:], maxN)
		}
	}
}

func c02DFS(tier string) *engine.DFS {
	dev := 2
	if tier == "thorough" {
		dev = 3
	}
	return &engine.DFS{Name: "streams@" + tier, Body: c02Body(tier), Procs: 16, WorkerProcs: 2, ShardDepth: 3, MaxDeviations: dev, MaxPoints: 300, HangTimeout: 30 * time.Second}
}

func C02(tier string) *engine.Report {
	rep := engine.NewReport("C02", tier, "exploration")
	var tot engine.DFSTotals
	d := c02DFS(tier)
	d.Budget = 4 * time.Minute
	if tier == "thorough" {
		d.Budget = 25 * time.Minute
	}
	tot.Add(d.Run(), rep)
	if len(rep.Violations) == 0 {
		bres := c02BuffersDFS(tier).Run()
		tot.Add(bres, rep)
		rep.Coverage["buffer_driven_writes"] = map[string]any{"executions": bres.Executions, "finished": bres.Exhaustive, "violations": len(bres.Violations)}
	}
	tot.Fill(rep, "reads: every composition of an N-byte stream (N<=5 quick, <=8 thorough) x buffer sizes {1,2,3,5,8} x AsyncRead/AsyncReadAll over Dial conn, accepted conn, FIFO file and AsyncAdapter, with poll placement, late/forced-deferred start and a concurrent write as deviations; "+
		"writes: FIFO of 1-2 pages x 7 sizes x reader drain patterns, TCP with minimal send buffer (kernel-chosen splits recorded); AsyncAdapter with a scripted io.ReadWriter returning every (n, err) answer; chains of 33/34/70 reads or writes of distinct 1-5 byte buffers, each issued from the previous completion (crossing the dispatch limit), over conn/accepted conn/FIFO/adapter x plain/All; all combinations of up to N deviations; non-trivial = more than one chunk or any write/adapter scenario; plus payloads of 100 kB and 1 MiB pushed through ByteBuffer.WriteTo / AsyncWriteTo into a TCP connection with a 4 KiB send buffer and a one-page FIFO while the peer drains at once or 8 KiB per step", d.MaxDeviations)
	rep.Assumptions = append(rep.Assumptions, "TCP write split sizes are chosen by the kernel and only observed; the enumerated partial-write patterns are the FIFO and scripted-adapter transports, which share the code path")
	return rep
}

func C02Replay(v engine.Violation, log func(string)) *engine.Violation {
	if strings.HasPrefix(v.Config, "buffers@") {
		return c02BuffersDFS(v.Config[8:]).ReplayChoices(v.Choices)
	}
	return c02DFS(v.Config[8:]).ReplayChoices(v.Choices)
}

var _ = errors.Is
