package checks

// C06, family "answering": delivery to a reader that behaves like an application — it re-arms the read from inside the
// read callback and answers what it received: with one AsyncWrite, or with two chained ones (the second started from the
// first one's completion). Transport reads and writes complete only when the harness says so (like the real adapter:
// never inside the initiating call), so the reader's flush step, the answers in flight and the next read overlap in
// every way the stepping order allows. 2-3 messages (optionally a ping in front of one) arrive in one segment, one
// segment per frame, or with the last message only after everything else has quiesced. Oracle: every message is
// delivered exactly once, in order, byte-identical (by frame or by message API); every read and write callback ran
// exactly once; the wire carries the pongs and the answers, each complete and in submission order.

import (
	"fmt"
	"time"

	"github.com/talostrading/sonic/codec/websocket"
	"verifmc/engine"
	"verifmc/vstream"
	"verifmc/wsref"
)

func c06AnswerBody(x *engine.X) {
	msgAPI := x.Pick(2, "AsyncNextFrame | AsyncNextMessage") == 1
	nmsg := 2 + x.Pick(2, "messages")
	answers := x.Pick(3, "the reader answers each message with: nothing | one AsyncWrite | two chained AsyncWrites")
	seg := x.Pick(3, "arrival: all in one segment | one segment per frame | the last message after everything else has quiesced")
	pingAt := x.Pick(nmsg+1, "a ping in front of message k (0 = none)")
	stepOrder := x.Pick(2, "the transport completes first: writes | reads")
	vs := vstream.New()
	vs.DeferRead = func() bool { return true }
	vs.DeferWrite = func() bool { return true }
	ws := newWS(x, vs, 1<<12)
	var sent []wsref.Frame
	var pings []wsref.Frame
	var segs [][]byte
	for m := 0; m < nmsg; m++ {
		var b []byte
		if pingAt == m+1 {
			p := wsref.Frame{Fin: true, Op: wsref.OpPing, Payload: []byte{byte(m)}}
			pings = append(pings, p)
			b = append(b, p.Encode()...)
		}
		f := wsref.Frame{Fin: true, Op: wsref.OpText, Payload: []byte(fmt.Sprintf("message-%d", m))}
		sent = append(sent, f)
		b = append(b, f.Encode()...)
		segs = append(segs, b)
	}
	x.Note("msgAPI=%v messages=%d answers=%d arrival=%d ping before %d, %s complete first", msgAPI, nmsg, answers, seg, pingAt, map[int]string{0: "writes", 1: "reads"}[stepOrder])
	x.Nontrivial()
	var got []wsref.Frame
	reads, readCbs := 0, 0
	var readErr error
	var wantOut []wsref.Frame
	writes, writeCbs := 0, 0
	var writeErr error
	write := func(p []byte, then func()) {
		writes++
		wantOut = append(wantOut, wsref.Frame{Fin: true, Op: wsref.OpBinary, Payload: p})
		ws.AsyncWrite(p, websocket.TypeBinary, func(err error) {
			writeCbs++
			if err != nil && writeErr == nil {
				writeErr = err
			}
			if then != nil {
				then()
			}
		})
	}
	buf := make([]byte, 256)
	var arm func()
	onMsg := func(err error, f wsref.Frame) {
		readCbs++
		if err != nil {
			readErr = err
			return
		}
		if f.Op >= 8 {
			// the frame API hands control frames to the caller too: not a message, nothing to answer, read on
			arm()
			return
		}
		got = append(got, f)
		k := len(got)
		switch answers {
		case 1:
			write([]byte(fmt.Sprintf("answer-%d", k)), nil)
		case 2:
			write([]byte(fmt.Sprintf("answer-%d-a", k)), func() { write([]byte(fmt.Sprintf("answer-%d-b", k)), nil) })
		}
		if len(got) < nmsg {
			arm()
		}
	}
	arm = func() {
		reads++
		if msgAPI {
			ws.AsyncNextMessage(buf, func(err error, n int, mt websocket.MessageType) {
				onMsg(err, wsref.Frame{Fin: true, Op: byte(mt), Payload: append([]byte{}, buf[:max(0, min(n, len(buf)))]...)})
			})
		} else {
			ws.AsyncNextFrame(func(err error, f websocket.Frame) {
				if err != nil || f == nil {
					onMsg(err, wsref.Frame{})
					return
				}
				onMsg(nil, wsref.Frame{Fin: f.IsFIN(), Op: byte(f.Opcode()), Payload: append([]byte{}, f.Payload()...)})
			})
		}
	}
	quiesce := func() {
		for steps := 0; steps < 10000; steps++ {
			var progressed bool
			if stepOrder == 0 {
				progressed = vs.StepWrite() || vs.StepRead()
			} else {
				progressed = vs.StepRead() || vs.StepWrite()
			}
			if !progressed {
				return
			}
		}
		x.Fail("ws.read/livelock", "the transport was stepped 10000 times without going quiescent")
	}
	x.Guard("ws.read/panic", func() {
		switch seg {
		case 0:
			var all []byte
			for _, s := range segs {
				all = append(all, s...)
			}
			vs.Feed(all)
			arm()
			quiesce()
		case 1:
			arm()
			for _, s := range segs {
				vs.Feed(s)
				quiesce()
			}
		default:
			var head []byte
			for _, s := range segs[:nmsg-1] {
				head = append(head, s...)
			}
			vs.Feed(head)
			arm()
			quiesce()
			vs.Feed(segs[nmsg-1])
			quiesce()
		}
		quiesce()
	})
	_ = time.Now
	if readErr != nil {
		x.Fail("ws.read/conforming-session-rejected", "a read returned %v on a conforming session", readErr)
	}
	if len(got) != nmsg {
		x.Fail("ws.read/message-lost", "the peer sent %d messages, %d were delivered (%d reads started, %d read callbacks); the transport has a read pending: %v, %d bytes unread", nmsg, len(got), reads, readCbs, vs.PendingRead != nil, vs.InLen())
	}
	if i, ok := sameFrames(got, sent); !ok {
		x.Fail("ws.read/frame-sequence", "delivered %v, sent %v (first difference at %d)", got, sent, i)
	}
	if readCbs != reads {
		x.Fail("ws.read/callback-lost", "%d reads were started, %d callbacks ran", reads, readCbs)
	}
	if writeCbs != writes || writeErr != nil {
		x.Fail("ws.write/callback-lost", "%d answers were written, %d callbacks ran (first error %v)", writes, writeCbs, writeErr)
	}
	out, rest, _ := wsref.ParseAll(vs.Out, 1<<20)
	var data, pongs []wsref.Frame
	for _, p := range out {
		if !p.Masked {
			x.Fail("ws.write/unmasked", "client wrote an unmasked frame %v", p.Frame)
		}
		if p.Op == wsref.OpPong {
			pongs = append(pongs, p.Frame)
		} else {
			data = append(data, p.Frame)
		}
	}
	if _, ok := sameFrames(data, wantOut); !ok || len(rest) != 0 {
		x.Fail("ws.write/answers-on-wire", "answers on the wire %v (+%d stray bytes), submitted %v", data, len(rest), wantOut)
	}
	var wantPongs []wsref.Frame
	for _, p := range pings {
		wantPongs = append(wantPongs, wsref.Frame{Fin: true, Op: wsref.OpPong, Payload: p.Payload})
	}
	if _, ok := sameFrames(pongs, wantPongs); !ok {
		x.Fail("ws.read/pongs", "pongs on the wire %v, expected %v", pongs, wantPongs)
	}
	x.Outcome(fmt.Sprintf("answering/%v/%d/%d/%d", msgAPI, nmsg, answers, seg))
}

func c06AnswerDFS(tier string) *engine.DFS {
	return &engine.DFS{Name: "answering@" + tier, Body: c06AnswerBody, Procs: 16, WorkerProcs: 1, ShardDepth: 3, MaxDeviations: 0, MaxPoints: 50, HangTimeout: 60 * time.Second}
}
