#!/bin/bash
# run.sh <Cxx> quick|thorough          build the harness against /repo's working tree (hooks on) and run one check
# run.sh <Cxx> replay <file>           replay a stored violation
# run.sh build                         build only (used by setup)
set -u
cd "$(dirname "$0")/mc" || exit 2
export GOFLAGS=-mod=mod GOPROXY=off GOCACHE="${GOCACHE:-/verif/.gocache}" VERIF_ROOT="${VERIF_ROOT:-/verif}"
unset GOSUMDB GOTOOLCHAIN
mkdir -p /verif/.bin /verif/.scratch
cp /repo/go.sum go.sum 2>/dev/null
if ! go build -tags verif -o /verif/.bin/verif ./cmd/verif 2>/verif/.scratch/build.log; then
  # a tree that does not compile with the harness cannot be explored; say so loudly (exit 2 = harness error, never a verdict)
  echo "HARNESS-ERROR: build failed:"; cat /verif/.scratch/build.log; exit 2
fi
build_c05() {
  # C05 needs scheduling points inside the poller: rewrite the working-tree copies of internal/poll_linux.go and
  # internal/eventfd.go (nothing under /repo is touched) and build through an overlay that also adds the shim package.
  go build -o /verif/.bin/xform ./cmd/xform 2>>/verif/.scratch/build.log || return 1
  rm -rf /verif/.scratch/overlay; /verif/.bin/xform /repo /verif/.scratch/overlay >/verif/.scratch/xform.log 2>&1 || { cat /verif/.scratch/xform.log; return 1; }
  go build -overlay /verif/.scratch/overlay/overlay.json -tags "verif c05" -o /verif/.bin/verif-c05 ./cmd/verif 2>>/verif/.scratch/build.log || return 1
  go build -race -gcflags=all=-d=checkptr=0 -o /verif/.bin/c05race ./cmd/c05race 2>>/verif/.scratch/build.log || echo "note: -race build unavailable" >>/verif/.scratch/build.log
  return 0
}
if [ "${1:-}" = build ]; then build_c05 || { echo "HARNESS-ERROR: C05 build failed:"; cat /verif/.scratch/build.log; exit 2; }; exit 0; fi
if [ "${1:-}" = C05 ]; then
  build_c05 || { echo "HARNESS-ERROR: C05 build failed:"; cat /verif/.scratch/build.log; exit 2; }
  exec /verif/.bin/verif-c05 "$@"
fi
exec /verif/.bin/verif "$@"
