//go:build c05

package checks

// C05 — Post is thread-safe, exactly-once, ordered, and wakes the loop.
//
// Engine E3 (controlled scheduler) over the real poller, instrumented at build time by cmd/xform through a
// go build overlay: sync.Mutex, sync/atomic calls, every plain access to the pending counter and the eventfd
// read/write pass through scheduling points. Threads: the loop L (waits until the epoll descriptor is
// readable — probed in the kernel —, then RunOne; between polls it may arm and cancel a FIFO read so that
// loop-only updates of the pending counter interleave with posters), posters P1 and P2 (1-2 Posts each), and
// optionally a posted handler that itself posts. All interleavings up to the preemption bound are explored.
// Oracle: every handler ran exactly once, on L, in per-poster order; at quiescence Pending()==0 and
// Posted()==0; no deadlock (a thread waiting for a mutex it holds included) and no lost wake-up (L waiting on
// an unreadable epoll descriptor while a handler is queued). Plus a free-running -race pass (cmd/c05race).

import (
	"context"
	"fmt"
	"os"
	"os/exec"
	"strings"
	"syscall"
	"time"

	"github.com/talostrading/sonic"
	"github.com/talostrading/sonic/verifshim"
	"verifmc/engine"
	"verifmc/kern"
)

func init() { register("C05", C05, C05Replay) }

type postRec struct {
	poster, seq int
	thread      string
}

var c05Posters = 2

func c05Body(x *engine.X) {
	// An observer thread that asks Posted() twice (it takes the poller's mutex without ever writing to the waker) is
	// one configuration of its own — one post per poster, nothing nested, no loop-side activity — because a fourth
	// thread multiplies the interleavings.
	asksPosted := x.Pick(2, "an observer thread calls Posted()") == 1
	nposts := [3]int{1, 1, 0}
	nested := false
	loopSide := 0
	if !asksPosted {
		nposts = [3]int{1 + x.Pick(2, "posts of P1"), 1 + x.Pick(2, "posts of P2"), 0}
		if c05Posters == 3 {
			nposts[2] = x.Pick(2, "posts of P3") // 0 or 1
		}
		nested = x.Pick(2, "a posted handler posts again") == 1
		// loop-side activity between polls: 0 none, 1 arm+cancel a FIFO read, 2 arm+cancel a FIFO write on a full
		// pipe, 3 arm a FIFO write on a full pipe and drain it (the write interest is disarmed inside Poll's dispatch)
		loopSide = x.Pick(4, "loop-side poller activity between polls")
	}
	epfd := lowestFreeFd()
	ioc, err := sonic.NewIO()
	if err != nil {
		engine.HarnessError("NewIO: %v", err)
	}
	var f sonic.File
	r, w, _ := kern.Pipe(4096)
	f, err = sonic.Open(ioc, fmt.Sprintf("/proc/self/fd/%d", r), syscall.O_RDONLY|syscall.O_NONBLOCK, 0)
	syscall.Close(r)
	if err != nil {
		engine.HarnessError("Open: %v", err)
	}
	var fw sonic.File
	if loopSide >= 2 {
		fw, err = sonic.Open(ioc, fmt.Sprintf("/proc/self/fd/%d", w), syscall.O_WRONLY|syscall.O_NONBLOCK, 0)
		if err != nil {
			engine.HarnessError("Open(w): %v", err)
		}
		syscall.SetNonblock(w, true)
		fill := make([]byte, 4096)
		for {
			if _, err := syscall.Write(w, fill); err != nil {
				break
			}
		}
		if kern.WouldNotBlockWrite(w) {
			engine.HarnessError("the pipe is still writable after filling it")
		}
	}
	x.Defer(func() {
		verifshim.Hooks = nil
		f.Close()
		if fw != nil {
			fw.Close()
		}
		syscall.Close(w)
		ioc.Close()
	})
	s := engine.NewSched(x)
	var ran []postRec
	expected := nposts[0] + nposts[1] + nposts[2]
	nthreads := 2
	if nposts[2] > 0 {
		nthreads = 3
	}
	if nested {
		expected++
	}
	threadName := func() string { return s.CurrentName() }
	finishedPosters := 0
	// Pending() is exact while a batch is being run, too: a handler that was posted (Post has returned) and has not
	// finished is in flight, so inside any posted handler Pending() is at least that many.
	postsReturned, finished := 0, 0
	var midBatchFail string
	midBatch := func() {
		lower := postsReturned - finished
		if lower < 1 {
			lower = 1 // the handler that is running has not finished: it counts, whether or not its Post has returned yet
		}
		if got := ioc.Pending(); got < int64(lower) && midBatchFail == "" {
			midBatchFail = fmt.Sprintf("inside a posted handler Pending()=%d although at least %d posted handlers (this one included) have not finished yet", got, lower)
		}
	}
	writeDone := 0
	s.Go("L", func() {
		buf := make([]byte, 4)
		for iter := 0; iter < 12; iter++ {
			switch {
			case loopSide == 1 && iter < 2:
				f.AsyncRead(buf, func(error, int) {})
				f.Cancel()
			case loopSide == 2 && iter < 2:
				fw.AsyncWrite(buf, func(error, int) {})
				fw.Cancel()
			case loopSide == 3 && iter == 0:
				fw.AsyncWrite(buf, func(err error, n int) {
					writeDone++
					if err != nil || n != len(buf) {
						panic(fmt.Sprintf("deferred FIFO write completed with (%v,%d)", err, n))
					}
				})
				big := make([]byte, 1<<16)
				for {
					if n, err := f.Read(big); err != nil || n == 0 {
						break
					}
				}
			}
			if len(ran) >= expected && finishedPosters == nthreads && (loopSide != 3 || writeDone > 0) {
				return
			}
			s.Block(func() bool { return kern.Readable(epfd) }, "the epoll descriptor is not readable")
			if err := ioc.RunOne(); err != nil {
				panic(fmt.Sprintf("RunOne: %v", err))
			}
			if got := ioc.Pending(); got < 0 && midBatchFail == "" {
				midBatchFail = fmt.Sprintf("after a loop iteration Pending()=%d", got)
			}
		}
	})
	for pi := 0; pi < nthreads; pi++ {
		pi := pi
		s.Go(fmt.Sprintf("P%d", pi+1), func() {
			for k := 0; k < nposts[pi]; k++ {
				k := k
				err := ioc.Post(func() {
					midBatch()
					ran = append(ran, postRec{pi, k, threadName()})
					if nested && pi == 0 && k == 0 {
						if err := ioc.Post(func() { midBatch(); ran = append(ran, postRec{9, 0, threadName()}); finished++ }); err != nil {
							panic(fmt.Sprintf("nested Post: %v", err))
						}
						postsReturned++
					}
					finished++
				})
				if err != nil {
					panic(fmt.Sprintf("Post: %v", err))
				}
				postsReturned++
			}
			finishedPosters++
		})
	}
	if asksPosted {
		s.Go("O", func() {
			_ = ioc.Posted()
			_ = ioc.Posted()
		})
	}
	verifshim.Hooks = &verifshim.H{
		Point: func(kind string) { s.Point(kind) },
		Lock: func(m *verifshim.Mutex) {
			s.Point("lock")
			for m.Held {
				owner := m.Owner
				s.Block(func() bool { return !m.Held }, fmt.Sprintf("mutex held by thread %d", owner))
			}
			m.Held, m.Owner = true, s.CurrentID()
			// a thread can lose the processor while it holds the mutex: invisible to threads that would block on it,
			// but not to one that only tries the lock
			s.Point("locked")
		},
		Unlock: func(m *verifshim.Mutex) {
			m.Held = false
			s.Point("unlock")
		},
		TryLock: func(m *verifshim.Mutex) bool {
			s.Point("trylock")
			if m.Held {
				return false
			}
			m.Held, m.Owner = true, s.CurrentID()
			return true
		},
	}
	deadlock := s.Run()
	verifshim.Hooks = nil
	x.Note("posts=%v nested=%v loop-side=%d schedule: %s", nposts, nested, loopSide, strings.Join(s.Trace, " "))
	if loopSide == 3 && writeDone != 1 && deadlock == "" {
		x.Fail("post/loop-side-write-completions", "the deferred FIFO write completed %d times", writeDone)
	}
	if len(s.Trace) > 4 {
		x.Nontrivial()
	}
	if name, p, st := s.Panicked(); p != nil {
		x.Fail("post/panic", "thread %s panicked: %v\n%s", name, p, st)
	}
	if deadlock != "" {
		sig := "post/deadlock-or-lost-wakeup"
		switch {
		case strings.Contains(deadlock, "mutex held by thread 0") && strings.Contains(deadlock, "L ("):
			sig = "post/nested/loop-deadlocks-on-its-own-mutex"
		case strings.Contains(deadlock, "epoll descriptor is not readable") && len(ran) < expected:
			sig = "post/lost-wakeup-or-lost-handler"
		}
		x.Fail(sig, "%s; %d of %d handlers ran (posts %v nested %v)", deadlock, len(ran), expected, nposts, nested)
	}
	// exactly once, on L, per-poster order
	seen := map[[2]int]int{}
	last := map[int]int{0: -1, 1: -1, 2: -1, 9: -1}
	for _, r := range ran {
		seen[[2]int{r.poster, r.seq}]++
		if r.thread != "L" {
			x.Fail("post/handler-ran-off-loop", "handler %d.%d ran on %s", r.poster, r.seq, r.thread)
		}
		if r.seq <= last[r.poster] {
			x.Fail("post/order", "handlers of poster %d ran out of order: %v", r.poster, ran)
		}
		last[r.poster] = r.seq
	}
	if len(ran) != expected {
		x.Fail("post/handler-count", "%d handlers ran, %d were posted: %v", len(ran), expected, ran)
	}
	for k, c := range seen {
		if c != 1 {
			x.Fail("post/handler-not-once", "handler %v ran %d times", k, c)
		}
	}
	if midBatchFail != "" {
		x.Fail("post/Pending-inexact-mid-batch", "%s (posts %v nested %v)", midBatchFail, nposts, nested)
	}
	if got := ioc.Posted(); got != 0 {
		x.Fail("post/Posted-inexact", "Posted()=%d at quiescence", got)
	}
	if got := ioc.Pending(); got != 0 {
		x.Fail("post/Pending-inexact", "Pending()=%d at quiescence with nothing in flight: an update of the pending counter was lost (posts %v loop-side activity %d)", got, nposts, loopSide)
	}
	x.Outcome(fmt.Sprintf("ran%d/order%v", len(ran), orderKey(ran)))
}

func orderKey(ran []postRec) string {
	s := ""
	for _, r := range ran {
		s += fmt.Sprintf("%d.%d,", r.poster, r.seq)
	}
	return s
}

// c05Stage: (preemption bound, number of posters). Quick is the single stage (2,2); thorough is a ladder of complete
// searches, each finished or cut by its budget (a cut depth-first search cannot say which bound it completed).
type c05Stage struct{ dev, posters int }

var c05Ladder = []c05Stage{{2, 2}, {3, 2}, {2, 3}, {3, 3}}

func c05DFS(tier string, st c05Stage) *engine.DFS {
	name := "post@" + tier
	if tier == "thorough" {
		name = fmt.Sprintf("post@%s/v%dp%d", tier, st.dev, st.posters)
	}
	body := func(x *engine.X) {
		c05Posters = st.posters
		c05Body(x)
	}
	return &engine.DFS{Name: name, Body: body, Procs: 16, WorkerProcs: 2, ShardDepth: 4, MaxDeviations: st.dev, MaxPoints: 1500, HangTimeout: 30 * time.Second}
}

func c05ParseStage(config string) (string, c05Stage) {
	st := c05Ladder[0]
	tier := config[strings.Index(config, "@")+1:]
	if i := strings.Index(tier, "/"); i >= 0 {
		fmt.Sscanf(tier[i+1:], "v%dp%d", &st.dev, &st.posters)
		tier = tier[:i]
	}
	return tier, st
}

func c05RacePass(rep *engine.Report) {
	bin := engine.Root + "/.bin/c05race"
	if _, err := os.Stat(bin); err != nil {
		rep.Coverage["race_pass"] = "not built"
		return
	}
	// bounded: with a deadlock in the code under test the free-running program never ends (the scheduler part
	// reports the deadlock; here it only means the race pass could not finish)
	ctx, cancel := context.WithTimeout(context.Background(), 90*time.Second)
	defer cancel()
	cmd := exec.CommandContext(ctx, bin, "30")
	cmd.Env = append(os.Environ(), "GORACE=halt_on_error=0 exitcode=66")
	out, err := cmd.CombinedOutput()
	if ctx.Err() != nil {
		rep.Coverage["race_pass"] = "did not finish within 90 s (killed)"
		return
	}
	races := strings.Count(string(out), "WARNING: DATA RACE")
	rep.Coverage["race_pass"] = map[string]any{"rounds": 30, "data_race_reports": races, "exit": fmt.Sprint(err)}
	if races > 0 {
		first := string(out)
		if i := strings.Index(first, "WARNING: DATA RACE"); i >= 0 {
			first = first[i:]
		}
		if len(first) > 2500 {
			first = first[:2500]
		}
		sig := "poller/data-race"
		if strings.Contains(first, "pending") || strings.Contains(first, "setRW") || strings.Contains(first, "DelRead") || strings.Contains(first, "Pending()") {
			sig = "poller.pending/post||loop/data-race"
		}
		rep.Add(engine.Violation{Sig: sig, Msg: "the race detector reports unsynchronised accesses in a free-running loop + 2 posters run:\n" + first, Config: "race", Cost: 0})
	} else if err != nil && !strings.Contains(string(out), "C05RACE: ok") {
		rep.Coverage["race_pass_output"] = string(out)
	}
}

func C05(tier string) *engine.Report {
	rep := engine.NewReport("C05", tier, "model_checking")
	var tot engine.DFSTotals
	rungs := c05Ladder[:1]
	budgets := []time.Duration{4 * time.Minute}
	if tier == "thorough" {
		rungs = c05Ladder
		budgets = []time.Duration{3 * time.Minute, 8 * time.Minute, 6 * time.Minute, 8 * time.Minute}
	}
	var done *c05Stage
	var stages []map[string]any
	executions := 0
	spare := time.Duration(0)
	for i, st := range rungs {
		d := c05DFS(tier, st)
		d.Budget = budgets[i] + spare
		t0 := time.Now()
		res := d.Run()
		used := time.Since(t0)
		spare = 0
		if used < d.Budget {
			spare = d.Budget - used
		}
		tot.Add(res, rep)
		executions += res.Executions
		stages = append(stages, map[string]any{"preemption_bound": st.dev, "posters": st.posters, "schedules": res.Executions, "finished": res.Exhaustive, "wall_s": int(used.Seconds()), "violations": len(res.Violations)})
		if res.Exhaustive {
			s := st
			done = &s
		}
		if len(res.Violations) > 0 {
			break
		}
	}
	if len(rep.Violations) == 0 {
		cres := c05ChainDFS(tier).Run()
		tot.Add(cres, rep)
		executions += cres.Executions
		rep.Coverage["nested_post_chains"] = map[string]any{"executions": cres.Executions, "finished": cres.Exhaustive, "violations": len(cres.Violations),
			"space": "poll call {PollOne, RunOneFor, RunOne, Poll} x descriptor ready {before the first poll, written by the first handler of the chain} x fan-out {1,2} x chain started by {the program, a posted handler}; the chain re-posts until the read it waits for is delivered"}
	}
	if len(rep.Violations) == 0 {
		bres := c05BulkDFS(tier).Run()
		tot.Add(bres, rep)
		executions += bres.Executions
		rep.Coverage["bulk_posts"] = map[string]any{"executions": bres.Executions, "finished": bres.Exhaustive, "violations": len(bres.Violations),
			"space": "K in {1,2,63,64,65,127,128,129,130,255,256,257,300,1024,1025} handlers queued before the first poll x 4 poll calls x the first | middle | last handler posts one more: all run once, in posting order"}
	}
	c05RacePass(rep)
	tot.Fill(rep, "all interleavings up to the preemption bound of loop L + posters P1,P2 (and, in the later thorough stages, P3) (1-2 posts each; optionally a nested post; loop-side activity between polls: none | arm+cancel a FIFO read | arm+cancel a FIFO write | a FIFO write disarmed inside Poll) over the real poller instrumented by an overlay rewrite (mutex, atomics, plain pending accesses, eventfd read/write are scheduling points); "+
		"non-trivial = the schedule switched threads at least twice", 0)
	rep.Coverage["stages"] = stages
	bound, posters := 0, 0
	if done != nil {
		bound, posters = done.dev, done.posters
	}
	// what is reported as completed is the last finished stage; later stages cut by their budget are listed under "stages"
	rep.Coverage["exhaustive"] = done != nil
	rep.Coverage["deviation_bound_completed"] = bound
	rep.Coverage["preemption_bound_completed"] = bound
	rep.Coverage["posters"] = posters
	// model_checking keys: every schedule is one complete execution of the implementation
	rep.Coverage["states"] = executions
	rep.Coverage["transitions"] = executions
	rep.Coverage["traces_validated_against_impl"] = executions
	rep.Coverage["schedules"] = executions
	rep.Assumptions = append(rep.Assumptions, "interleavings are sequentially consistent; scheduling points are the hooked operations (cmd/xform) — accesses the rewrite does not hook are covered only by the free-running -race pass, which samples")
	return rep
}

func C05Replay(v engine.Violation, log func(string)) *engine.Violation {
	if v.Config == "race" {
		rep := engine.NewReport("C05", "quick", "model_checking")
		c05RacePass(rep)
		for _, vv := range rep.Violations {
			return &vv
		}
		return nil
	}
	if strings.HasPrefix(v.Config, "post-bulk@") {
		return c05BulkDFS(v.Config[len("post-bulk@"):]).ReplayChoices(v.Choices)
	}
	if strings.HasPrefix(v.Config, "post-chain@") {
		return c05ChainDFS(v.Config[len("post-chain@"):]).ReplayChoices(v.Choices)
	}
	tier, st := c05ParseStage(v.Config)
	return c05DFS(tier, st).ReplayChoices(v.Choices)
}
