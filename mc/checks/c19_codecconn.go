package checks

// C19 — CodecConn framing (length-prefixed frame codec) is independent of transport segmentation.
//
// Engine E1. Writer side: a real CodecConn + frame.Codec over the scripted transport, WriteNext or
// AsyncWriteNext of every payload sequence of length <= 3 over sizes {0,1,2,255,256,4097}; blocking writes
// accept everything / 1 byte / len-1 per call, asynchronous writes complete inline or deferred. The bytes
// the peer received must be exactly the reference encoding (4-byte big-endian length + payload) of each
// item, once, in order, and after a successful write nothing of the item may be left in the write buffer.
// Reader side: a second real CodecConn reads that byte stream (reference-encoded, so the two sides are
// judged independently) under every cut set of up to N cuts around all item boundaries and header bytes,
// whole (fully coalesced) and byte by byte, with ReadNext or AsyncReadNext (inline / deferred); the payload
// sequence must come out identical, one per call, and the next call must starve (nothing invented).
// Hostile input: every 4-byte prefix over {00,01,3F,40,7F,80,FF} whose declared length is above the limit or
// at most 128 KiB, with short tails, under every cut: no panic; above the limit an error and no buffer
// growth; otherwise "need more".

import (
	"encoding/binary"
	"errors"
	"fmt"
	"runtime/debug"
	"syscall"
	"time"
	"verifmc/kern"

	"github.com/talostrading/sonic"
	"github.com/talostrading/sonic/codec/frame"
	"github.com/talostrading/sonic/sonicerrors"
	"verifmc/engine"
	"verifmc/vstream"
)

var c19Sizes = []int{1, 0, 2, 255, 256, 4097}

func refEncode(p []byte) []byte {
	b := binary.BigEndian.AppendUint32(nil, uint32(len(p)))
	return append(b, p...)
}

func c19Items(x *engine.X) [][]byte {
	n := 1 + x.Pick(3, "number of items")
	var items [][]byte
	for i := 0; i < n; i++ {
		sz := c19Sizes[x.Pick(len(c19Sizes), "payload size")]
		items = append(items, payloadBytes(i+1, sz))
	}
	return items
}

func c19WriteBody(x *engine.X) {
	async := x.Pick(2, "WriteNext/AsyncWriteNext") == 1
	items := c19Items(x)
	vs := vstream.New()
	switch x.Deviate(3, "blocking write accepts all/1/len-1") {
	case 1:
		vs.Accept = func(n int) int {
			if n > 1 {
				return 1
			}
			return n
		}
	case 2:
		vs.Accept = func(n int) int {
			if n > 1 {
				return n - 1
			}
			return n
		}
	}
	// asynchronous writes meet the same transport: one attempt takes 1 byte / all but one; an AsyncWriteAll goes on,
	// a plain AsyncWrite would report the short count as its result
	vs.AsyncAccept = vs.Accept
	// a non-blocking transport that takes part of an item and then reports would-block: the call fails, the rest of
	// the item stays queued, and after the transport drained the next call must send it exactly once
	blockAfter := -1
	if !async {
		blockAfter = []int{-1, 1, 3, 5}[x.Deviate(4, "blocking write: would-block after k bytes of the first item")]
	}
	if blockAfter >= 0 {
		taken := 0
		prev := vs.Accept
		vs.Accept = func(n int) int {
			k := n
			if prev != nil {
				k = prev(n)
			}
			if taken+k > blockAfter && taken < blockAfter {
				k = blockAfter - taken
			}
			taken += k
			return k
		}
		vs.WriteErr = func() error {
			if taken >= blockAfter && blockAfter >= 0 {
				blockAfter = -1 // once
				return sonicerrors.ErrWouldBlock
			}
			return nil
		}
	}
	deferred := async && x.Deviate(2, "async write deferred") == 1
	if deferred {
		vs.DeferWrite = func() bool { return true }
	}
	src, dst := sonic.NewByteBuffer(), sonic.NewByteBuffer()
	cc, _ := sonic.NewCodecConn[[]byte, []byte](vs, frame.NewCodec(src), src, dst)
	var want []byte
	var sizes []int
	pendingTail := false
	x.Guard("codecconn.write/panic", func() {
		for i, it := range items {
			sizes = append(sizes, len(it))
			var err error
			var n int
			if async {
				calls := 0
				cc.AsyncWriteNext(it, func(e error, m int) { calls++; err, n = e, m })
				for k := 0; k < 20000 && vs.StepWrite(); k++ {
				}
				if calls != 1 {
					x.Fail("codecconn.AsyncWriteNext/callbacks", "item %d: callback ran %d times", i, calls)
				}
			} else {
				n, err = cc.WriteNext(it)
			}
			want = append(want, refEncode(it)...)
			if err != nil {
				if errors.Is(err, sonicerrors.ErrWouldBlock) && !async {
					// legitimate: part of the item went out; the remainder must go out, once, with the next call
					if string(vs.Out) != string(want[:len(vs.Out)]) {
						x.Fail("codecconn.write/peer-bytes", "after a would-block in item %d the peer holds bytes that are not a prefix of the items written", i)
					}
					pendingTail = true
					continue
				}
				x.Fail("codecconn.write/error", "item %d (%d bytes): %v", i, len(it), err)
			}
			pendingTail = false
			if string(vs.Out) != string(want) {
				sig := "codecconn.write/peer-bytes"
				if len(vs.Out) < len(want) && string(vs.Out) == string(want[:len(vs.Out)]) {
					sig = "codecconn.write/item-not-fully-written"
				}
				x.Fail(sig, "after a successful write of item %d (%d bytes, n=%d) the peer holds %d bytes, expected %d (header+payload of every item once); write buffer: ReadLen=%d WriteLen=%d",
					i, len(it), n, len(vs.Out), len(want), dst.ReadLen(), dst.WriteLen())
			}
			if dst.ReadLen() != 0 || dst.WriteLen() != 0 {
				x.Fail("codecconn.write/left-behind", "after a successful write of item %d the write buffer still holds ReadLen=%d WriteLen=%d", i, dst.ReadLen(), dst.WriteLen())
			}
		}
	})
	if pendingTail {
		// the last call hit the would-block: flush what is left with one more (empty) item
		if _, err := cc.WriteNext(nil); err != nil {
			x.Fail("codecconn.write/error", "write after the would-block: %v", err)
		}
		want = append(want, refEncode(nil)...)
		if string(vs.Out) != string(want) {
			x.Fail("codecconn.write/peer-bytes", "after a would-block and one more write the peer holds %d bytes, expected %d (every item once)", len(vs.Out), len(want))
		}
	}
	x.Note("write async=%v deferred=%v sizes=%v", async, deferred, sizes)
	if len(items) > 1 || deferred || vs.Accept != nil {
		x.Nontrivial()
	}
	x.Outcome(fmt.Sprintf("write/%d items", len(items)))
}

func c19CutPositions(bounds []int, n int) []int {
	set := map[int]bool{}
	start := 0
	for _, e := range bounds {
		for _, d := range []int{1, 2, 3, 4, 5} {
			if start+d < n {
				set[start+d] = true
			}
		}
		for _, d := range []int{-1, 0} {
			if e+d > 0 && e+d < n {
				set[e+d] = true
			}
		}
		if mid := (start + e) / 2; mid > 0 && mid < n {
			set[mid] = true
		}
		start = e
	}
	if n <= 24 {
		for i := 1; i < n; i++ {
			set[i] = true
		}
	}
	var out []int
	for i := 1; i < n; i++ {
		if set[i] {
			out = append(out, i)
		}
	}
	return out
}

func c19ReadBody(x *engine.X) {
	async := x.Pick(2, "ReadNext/AsyncReadNext") == 1
	items := c19Items(x)
	var wire []byte
	var bounds []int
	for _, it := range items {
		wire = append(wire, refEncode(it)...)
		bounds = append(bounds, len(wire))
	}
	var segs [][]byte
	if len(wire) <= 600 && x.Deviate(2, "byte-by-byte") == 1 {
		for i := range wire {
			segs = append(segs, wire[i:i+1])
		}
	} else {
		var cuts []int
		for _, p := range c19CutPositions(bounds, len(wire)) {
			if x.Deviate(2, fmt.Sprintf("cut at %d", p)) == 1 {
				cuts = append(cuts, p)
			}
		}
		segs = split(wire, cuts)
		x.Note("cuts %v", cuts)
	}
	vs := vstream.New()
	for _, s := range segs {
		vs.Feed(s)
	}
	deferred := async && x.Deviate(2, "async read deferred") == 1
	if deferred {
		vs.DeferRead = func() bool { return true }
	}
	src, dst := sonic.NewByteBuffer(), sonic.NewByteBuffer()
	cc, _ := sonic.NewCodecConn[[]byte, []byte](vs, frame.NewCodec(src), src, dst)
	var got [][]byte
	x.Guard("codecconn.read/panic", func() {
		for i := 0; i <= len(items)+1; i++ {
			var p []byte
			var err error
			if async {
				calls := 0
				cc.AsyncReadNext(func(e error, b []byte) { calls++; err = e; p = append([]byte{}, b...) })
				for k := 0; calls == 0 && k < 100000 && vs.StepRead(); k++ {
				}
				if calls > 1 {
					x.Fail("codecconn.AsyncReadNext/callbacks", "callback ran %d times", calls)
				}
				if calls == 0 {
					break // parked on the exhausted script
				}
			} else {
				var b []byte
				b, err = cc.ReadNext()
				p = append([]byte{}, b...)
			}
			if err != nil {
				if errors.Is(err, vstream.ErrStarved) {
					break
				}
				x.Fail("codecconn.read/error", "read %d: %v", i, err)
			}
			got = append(got, p)
		}
	})
	var sizes []int
	for _, it := range items {
		sizes = append(sizes, len(it))
	}
	x.Note("read async=%v deferred=%v sizes=%v segments=%d", async, deferred, sizes, len(segs))
	if len(segs) > 1 {
		x.Nontrivial()
	}
	if len(got) != len(items) {
		x.Fail("codecconn.read/item-count", "%d items read, %d were sent (sizes %v)", len(got), len(items), sizes)
	}
	for i := range items {
		if string(got[i]) != string(items[i]) {
			x.Fail("codecconn.read/payload", "item %d: read %d bytes, sent %d; contents differ=%v", i, len(got[i]), len(items[i]), true)
		}
	}
	x.Outcome(fmt.Sprintf("read/%d items/%d segs", len(items), min(len(segs), 4)))
}

// c19AllSizes: one item of EVERY size in 0..1100 and around the capacity steps the read buffer grows through,
// delivered whole or with one cut inside the payload, read back through ReadNext / AsyncReadNext.
func c19AllSizesList() []int {
	var out []int
	for n := 0; n <= 1100; n++ {
		out = append(out, n)
	}
	for _, c := range []int{2048, 4096, 8192, 16384, 65536} {
		for d := -6; d <= 6; d++ {
			out = append(out, c+d)
		}
	}
	return out
}

func c19AllSizesBody(x *engine.X) {
	sizes := c19AllSizesList()
	n := sizes[x.Pick(len(sizes), "payload size")]
	async := x.Pick(2, "ReadNext/AsyncReadNext") == 1
	cut := x.Pick(3, "whole / cut after the length prefix / cut in the payload")
	first := payloadBytes(7, 3)
	item := payloadBytes(9, n)
	wire := append(refEncode(first), refEncode(item)...)
	vs := vstream.New()
	switch {
	case cut == 1:
		vs.Feed(wire[:len(refEncode(first))+4])
		vs.Feed(wire[len(refEncode(first))+4:])
	case cut == 2 && n > 1:
		k := len(refEncode(first)) + 4 + n/2
		vs.Feed(wire[:k])
		vs.Feed(wire[k:])
	default:
		vs.Feed(wire)
	}
	x.Note("all-sizes n=%d async=%v cut=%d", n, async, cut)
	x.Nontrivial()
	src, dst := sonic.NewByteBuffer(), sonic.NewByteBuffer()
	cc, _ := sonic.NewCodecConn[[]byte, []byte](vs, frame.NewCodec(src), src, dst)
	for i, want := range [][]byte{first, item} {
		var got []byte
		var err error
		calls := 1
		x.Guard("codecconn.read/panic", func() {
			if async {
				calls = 0
				cc.AsyncReadNext(func(e error, b []byte) { calls++; err = e; got = append([]byte{}, b...) })
			} else {
				var b []byte
				b, err = cc.ReadNext()
				got = append([]byte{}, b...)
			}
		})
		if calls != 1 || err != nil || string(got) != string(want) {
			x.Fail("codecconn.read/item-of-some-size", "item %d of %d bytes: callbacks=%d err=%v, %d bytes returned (equal=%v) although the whole item was delivered", i, len(want), calls, err, len(got), string(got) == string(want))
		}
	}
	x.Outcome("all-sizes")
}

func c19HostileInputs() [][]byte {
	alpha := []byte{0x00, 0x01, 0x3F, 0x40, 0x7F, 0x80, 0xFF}
	var out [][]byte
	for _, a := range alpha {
		for _, b := range alpha {
			for _, c := range alpha {
				for _, d := range alpha {
					decl := uint32(a)<<24 | uint32(b)<<16 | uint32(c)<<8 | uint32(d)
					if decl > frame.MaxPayloadLength || decl <= 128*1024 {
						for _, tail := range []int{0, 1, 3} {
							in := []byte{a, b, c, d}
							in = append(in, payloadBytes(int(d), tail)...)
							out = append(out, in)
						}
					}
				}
			}
		}
	}
	// arithmetic boundaries of the declared length: around the limit, around 2^31, and the values for which
	// header+length wraps in 32 bits
	for _, decl := range []uint32{frame.MaxPayloadLength - 1, frame.MaxPayloadLength, frame.MaxPayloadLength + 1, frame.MaxPayloadLength + 4, frame.MaxPayloadLength + 5,
		0x7FFFFFFB, 0x7FFFFFFC, 0x7FFFFFFE, 0x80000001, 0xFFFFFFF0, 0xFFFFFFFA, 0xFFFFFFFB, 0xFFFFFFFC, 0xFFFFFFFD, 0xFFFFFFFE} {
		if decl <= frame.MaxPayloadLength && decl > 128*1024 {
			continue // a legitimate large item: covered by the all-sizes family, too large to enumerate cuts of
		}
		for _, tail := range []int{0, 1, 3} {
			in := []byte{byte(decl >> 24), byte(decl >> 16), byte(decl >> 8), byte(decl)}
			in = append(in, payloadBytes(int(byte(decl)), tail)...)
			out = append(out, in)
		}
	}
	// shorter than a header
	out = append(out, []byte{}, []byte{0xFF}, []byte{0xFF, 0xFF, 0xFF})
	return out
}

func c19HostileBody(ins [][]byte) func(x *engine.X) {
	return func(x *engine.X) {
		in := ins[x.Pick(len(ins), "hostile input")]
		var cuts []int
		for p := 1; p < len(in); p++ {
			if x.Deviate(2, "cut") == 1 {
				cuts = append(cuts, p)
			}
		}
		async := x.Pick(2, "sync/async") == 1
		x.Note("hostile % x cuts %v async=%v", in, cuts, async)
		x.Nontrivial()
		vs := vstream.New()
		for _, s := range split(in, cuts) {
			vs.Feed(s)
		}
		src, dst := sonic.NewByteBuffer(), sonic.NewByteBuffer()
		cc, _ := sonic.NewCodecConn[[]byte, []byte](vs, frame.NewCodec(src), src, dst)
		capBefore := src.Cap()
		var decl uint32
		if len(in) >= 4 {
			decl = binary.BigEndian.Uint32(in[:4])
		}
		var err error
		var p []byte
		calls := 1
		x.Guard("codecconn.read/hostile/panic", func() {
			if async {
				calls = 0
				cc.AsyncReadNext(func(e error, b []byte) { calls++; err = e; p = b })
			} else {
				p, err = cc.ReadNext()
			}
		})
		over := len(in) >= 4 && decl > frame.MaxPayloadLength
		complete := len(in) >= 4 && !over && int(decl) <= len(in)-4
		switch {
		case over:
			if calls != 1 || err == nil || errors.Is(err, vstream.ErrStarved) || errors.Is(err, sonicerrors.ErrNeedMore) {
				x.Fail("codecconn.read/over-limit-not-rejected", "declared length %d above the limit: callbacks=%d err=%v", decl, calls, err)
			}
			if src.Cap() != capBefore {
				x.Fail("codecconn.read/over-limit-buffered", "declared length %d above the limit grew the buffer from %d to %d", decl, capBefore, src.Cap())
			}
			x.Outcome("hostile/over-limit")
		case complete:
			if calls != 1 || err != nil || string(p) != string(in[4:4+decl]) {
				x.Fail("codecconn.read/payload", "complete item of %d bytes: callbacks=%d err=%v payload=%x", decl, calls, err, p)
			}
			x.Outcome("hostile/complete")
		default:
			if calls == 1 && !errors.Is(err, vstream.ErrStarved) {
				x.Fail("codecconn.read/incomplete-item-delivered", "incomplete item (declared %d, %d bytes present): err=%v payload=%x", decl, len(in), err, p)
			}
			if src.Cap() > capBefore+int(decl)+4+4096 && src.Cap() > 2*(int(decl)+8) {
				x.Fail("codecconn.read/over-buffering", "declared length %d grew the buffer to %d", decl, src.Cap())
			}
			x.Outcome("hostile/need-more")
		}
	}
}

// c19FifoBody: the same codec over a REAL non-blocking transport — a sonic File on the write end of a one-page pipe —
// so that "would-block in the middle of an item" is the kernel's: an item of three pages or more leaves in several
// pieces, with the raw reader draining a page (or everything) between poll cycles. The bytes the reader collects must
// be the reference encoding of the items, every callback runs once with the payload length.
func c19FifoBody(x *engine.X) {
	ioc, err := sonic.NewIO()
	if err != nil {
		engine.HarnessError("NewIO: %v", err)
	}
	r, w, _ := kern.Pipe(4096)
	f, err := sonic.Open(ioc, fmt.Sprintf("/proc/self/fd/%d", w), syscall.O_WRONLY|syscall.O_NONBLOCK, 0)
	syscall.Close(w)
	if err != nil {
		engine.HarnessError("Open: %v", err)
	}
	x.Defer(func() { f.Close(); syscall.Close(r); ioc.Close() })
	src, dst := sonic.NewByteBuffer(), sonic.NewByteBuffer()
	cc, _ := sonic.NewCodecConn[[]byte, []byte](f, frame.NewCodec(src), src, dst)
	shapes := [][]int{{12285}, {20000}, {12285, 5}, {5, 12285}, {4092, 4093}}
	sizes := shapes[x.Pick(len(shapes), "item sizes")]
	x.Note("fifo items %v", sizes)
	x.Nontrivial()
	var want, got []byte
	buf := make([]byte, 1<<16)
	drain := func(max int) {
		if n, err := syscall.Read(r, buf[:max]); err == nil && n > 0 {
			got = append(got, buf[:n]...)
		}
	}
	for i, sz := range sizes {
		it := payloadBytes(i+1, sz)
		want = append(want, refEncode(it)...)
		calls := 0
		var cerr error
		cc.AsyncWriteNext(it, func(err error, n int) { calls++; cerr = err })
		for step := 0; step < 40 && calls == 0; step++ {
			if x.Deviate(2, "the reader drains a page / everything") == 1 {
				drain(1 << 16)
			} else {
				drain(4096)
			}
			ioc.PollOne()
		}
		if calls != 1 || cerr != nil {
			x.Fail("codecconn.AsyncWriteNext/callbacks", "item %d (%d bytes) over a one-page pipe whose reader keeps draining: callback ran %d times, err=%v", i, sz, calls, cerr)
		}
	}
	for i := 0; i < 8; i++ {
		drain(1 << 16)
	}
	if string(got) != string(want) {
		at := 0
		for at < len(got) && at < len(want) && got[at] == want[at] {
			at++
		}
		x.Fail("codecconn.write/peer-bytes", "items %v written through a one-page pipe: the reader collected %d bytes, the reference encoding has %d; first difference at offset %d", sizes, len(got), len(want), at)
	}
	if dst.ReadLen() != 0 || dst.WriteLen() != 0 {
		x.Fail("codecconn.write/left-behind", "after the writes the write buffer still holds ReadLen=%d WriteLen=%d", dst.ReadLen(), dst.WriteLen())
	}
	x.Outcome(fmt.Sprintf("fifo/%d items", len(sizes)))
}

// c19DuplexBody: a CodecConn used in both directions at once over a real TCP connection with a small send buffer: a
// read is pending (nothing to read yet) while an item larger than the socket buffer is written — the write parks in
// the poller next to the read, is resumed piece by piece as the peer drains, and completes; then the peer answers with
// an item of its own. Both the write's and the read's callback run exactly once, the peer receives the reference
// encoding, and the pending read delivers the peer's item. Order of starting the two, size of the written item, and
// what the peer does first are free choices.
func c19DuplexBody(x *engine.X) {
	ioc, err := sonic.NewIO()
	if err != nil {
		engine.HarnessError("NewIO: %v", err)
	}
	lfd, addr, port, err := kern.TCPListener()
	if err != nil {
		engine.HarnessError("listener: %v", err)
	}
	c, err := sonic.Dial(ioc, "tcp", kern.AddrString(addr, port))
	if err != nil {
		x.Inconclusive("dial: " + err.Error())
	}
	peer, err := kern.AcceptRaw(lfd, settleGuard)
	syscall.Close(lfd)
	if err != nil {
		engine.HarnessError("accept: %v", err)
	}
	syscall.SetsockoptInt(c.RawFd(), syscall.SOL_SOCKET, syscall.SO_SNDBUF, 4096)
	syscall.SetsockoptInt(peer, syscall.SOL_SOCKET, syscall.SO_RCVBUF, 65536)
	syscall.SetNonblock(peer, true)
	x.Defer(func() {
		syscall.SetsockoptLinger(c.RawFd(), syscall.SOL_SOCKET, syscall.SO_LINGER, &syscall.Linger{Onoff: 1})
		c.Close()
		kern.Abort(peer)
		ioc.Close()
	})
	src, dst := sonic.NewByteBuffer(), sonic.NewByteBuffer()
	cc, _ := sonic.NewCodecConn[[]byte, []byte](c, frame.NewCodec(src), src, dst)
	sizes := []int{5, 70000, 1 << 20}
	sz := sizes[x.Pick(len(sizes), "size of the written item")]
	readFirst := x.Pick(2, "started first: the read | the write") == 0
	replyEarly := x.Pick(2, "the peer sends its item: after it has received everything | while the write is still parked") == 1
	x.Note("duplex write %d bytes, readFirst=%v, replyEarly=%v", sz, readFirst, replyEarly)
	x.Nontrivial()
	item := payloadBytes(3, sz)
	want := refEncode(item)
	reply := payloadBytes(9, 300)
	wcalls, rcalls := 0, 0
	var werr, rerr error
	var ritem []byte
	startRead := func() {
		cc.AsyncReadNext(func(err error, it []byte) { rcalls++; rerr = err; ritem = append([]byte{}, it...) })
	}
	startWrite := func() { cc.AsyncWriteNext(item, func(err error, n int) { wcalls++; werr = err }) }
	if readFirst {
		startRead()
		startWrite()
	} else {
		startWrite()
		startRead()
	}
	var got []byte
	buf := make([]byte, 1<<16)
	replied := false
	sendReply := func() {
		replied = true
		b := refEncode(reply)
		for len(b) > 0 {
			n, err := syscall.Write(peer, b)
			if err != nil {
				engine.HarnessError("peer write: %v", err)
			}
			b = b[n:]
		}
	}
	deadline := time.Now().Add(20 * time.Second)
	for (wcalls == 0 || rcalls == 0 || len(got) < len(want)) && time.Now().Before(deadline) {
		if replyEarly && !replied && (len(got) > 0 || sz <= 5) {
			sendReply()
		}
		if n, err := syscall.Read(peer, buf); err == nil && n > 0 {
			got = append(got, buf[:n]...)
		}
		if !replied && len(got) >= len(want) {
			sendReply()
		}
		ioc.PollOne()
		if wcalls > 0 && werr != nil {
			break
		}
	}
	if wcalls != 1 || werr != nil {
		x.Fail("codecconn.duplex/write-callbacks", "a %d-byte item written while a read was pending: the write callback ran %d times, err=%v (the peer received %d of %d bytes)", sz, wcalls, werr, len(got), len(want))
	}
	if string(got) != string(want) {
		x.Fail("codecconn.write/peer-bytes", "a %d-byte item written while a read was pending: the peer received %d bytes, the reference encoding has %d", sz, len(got), len(want))
	}
	if rcalls != 1 || rerr != nil || string(ritem) != string(reply) {
		x.Fail("codecconn.duplex/read-lost", "the read that was pending while a %d-byte item was written: callback ran %d times, err=%v, item of %d bytes (the peer sent one item of %d bytes after the write)", sz, rcalls, rerr, len(ritem), len(reply))
	}
	if p := ioc.Pending(); p != 0 {
		x.Fail("codecconn.duplex/pending", "Pending()=%d after both operations completed", p)
	}
	x.Outcome(fmt.Sprintf("duplex/%d/%v/%v", sz, readFirst, replyEarly))
}

// c19HangupBody: the writer closes right after its last item. A read is parked in the poller (nothing to read yet),
// the writer writes 1-3 items in one go and closes its end at once, so that the data and the hang-up reach the reader in
// ONE poll event; every item must still be returned (each read re-issued from the previous completion), and only then
// the end of the stream reported, once.
func c19HangupBody(x *engine.X) {
	ioc, err := sonic.NewIO()
	if err != nil {
		engine.HarnessError("NewIO: %v", err)
	}
	r, w, _ := kern.Pipe(65536)
	f, err := sonic.Open(ioc, fmt.Sprintf("/proc/self/fd/%d", r), syscall.O_RDONLY|syscall.O_NONBLOCK, 0)
	syscall.Close(r)
	if err != nil {
		engine.HarnessError("Open: %v", err)
	}
	wOpen := true
	x.Defer(func() {
		f.Close()
		if wOpen {
			syscall.Close(w)
		}
		ioc.Close()
	})
	src, dst := sonic.NewByteBuffer(), sonic.NewByteBuffer()
	cc, _ := sonic.NewCodecConn[[]byte, []byte](f, frame.NewCodec(src), src, dst)
	shapes := [][]int{{5}, {0}, {5, 300}, {300, 5, 1}, {4093}, {4092, 7}}
	sizes := shapes[x.Pick(len(shapes), "items written before the writer closes")]
	parkedFirst := x.Pick(2, "the first read is started: before anything is written (parked) | after the writer has closed") == 0
	x.Note("hang-up after items %v, read parked first: %v", sizes, parkedFirst)
	x.Nontrivial()
	var got [][]byte
	var finalErr error
	ends := 0
	var read func()
	read = func() {
		cc.AsyncReadNext(func(err error, it []byte) {
			if err != nil {
				ends++
				finalErr = err
				return
			}
			got = append(got, append([]byte{}, it...))
			read()
		})
	}
	if parkedFirst {
		read()
		if len(got) != 0 || ends != 0 {
			x.Fail("codecconn.hangup/early-completion", "a read on an empty pipe completed at once")
		}
	}
	var wire []byte
	var want [][]byte
	for i, sz := range sizes {
		it := payloadBytes(i+1, sz)
		want = append(want, it)
		wire = append(wire, refEncode(it)...)
	}
	if n, err := syscall.Write(w, wire); err != nil || n != len(wire) {
		engine.HarnessError("pipe write: %d %v", n, err)
	}
	syscall.Close(w)
	wOpen = false
	if !parkedFirst {
		read()
	}
	for i := 0; i < 20 && ends == 0; i++ {
		ioc.PollOne()
	}
	if len(got) != len(want) {
		x.Fail("codecconn.hangup/items-lost", "the writer wrote %d items (%v bytes) and closed; the reader was given %d before the stream ended with %v", len(want), sizes, len(got), finalErr)
	}
	for i := range want {
		if string(got[i]) != string(want[i]) {
			x.Fail("codecconn.read/item-bytes", "item %d of %d bytes differs from what was written", i, len(want[i]))
		}
	}
	if ends != 1 || finalErr == nil {
		x.Fail("codecconn.hangup/end-not-reported-once", "after the last item the end of the stream was reported %d times (err=%v)", ends, finalErr)
	}
	x.Outcome(fmt.Sprintf("hangup/%d items/%v", len(sizes), parkedFirst))
}

func c19DFS(tier, which string) *engine.DFS {
	dev := 2
	if tier == "thorough" {
		dev = 3
	}
	switch which {
	case "write":
		return &engine.DFS{Name: "write@" + tier, Body: c19WriteBody, Threads: 16, ShardDepth: 3, MaxDeviations: 2}
	case "read":
		return &engine.DFS{Name: "read@" + tier, Body: c19ReadBody, Threads: 16, ShardDepth: 3, MaxDeviations: dev, MaxPoints: 700}
	case "fifo":
		return &engine.DFS{Name: "fifo@" + tier, Body: c19FifoBody, Procs: 4, WorkerProcs: 1, ShardDepth: 1, MaxDeviations: 2, MaxPoints: 200, HangTimeout: 30 * time.Second}
	case "hangup":
		return &engine.DFS{Name: "hangup@" + tier, Body: c19HangupBody, Procs: 4, WorkerProcs: 1, ShardDepth: 1, MaxDeviations: 0, MaxPoints: 50, HangTimeout: 60 * time.Second}
	case "duplex":
		return &engine.DFS{Name: "duplex@" + tier, Body: c19DuplexBody, Procs: 4, WorkerProcs: 1, ShardDepth: 1, MaxDeviations: 0, MaxPoints: 50, HangTimeout: 60 * time.Second}
	case "allsizes":
		return &engine.DFS{Name: "allsizes@" + tier, Body: c19AllSizesBody, Threads: 16, ShardDepth: 1, MaxDeviations: 0}
	default:
		return &engine.DFS{Name: "hostile@" + tier, Body: c19HostileBody(c19HostileInputs()), Threads: 16, ShardDepth: 1, MaxDeviations: 6}
	}
}

func C19(tier string) *engine.Report {
	rep := engine.NewReport("C19", tier, "exploration")
	var tot engine.DFSTotals
	for _, w := range []string{"write", "read", "allsizes", "hostile", "fifo", "duplex", "hangup"} {
		tot.Add(c19DFS(tier, w).Run(), rep)
	}
	for _, v := range c19LimitBoundary() {
		rep.Add(v)
	}
	rep.Coverage["limit_boundary"] = "payloads of exactly the limit (1 GiB) and limit+1 through Encode; headers declaring limit and limit+1 through Decode"
	tot.Fill(rep, "payload sequences (<=3 items over 6 sizes) written through a real CodecConn+frame.Codec (blocking/async, partial acceptance, deferred completion) and compared byte-for-byte with the reference encoding; "+
		"the reference-encoded stream read back through a second CodecConn under all cut sets of up to N cuts around every boundary/header byte, whole and byte-by-byte, blocking/async inline/deferred; "+
		"items of 3-5 pages written asynchronously through a real one-page pipe (a sonic File) whose reader drains a page or everything between polls; a CodecConn used in both directions over real TCP (a read pending while an item of 5 B / 70 kB / 1 MiB is written and parks; the peer answers after or during the write); a FIFO whose writer writes 1-3 items and closes at once (data and hang-up in one poll event, read parked before or started after); hostile 4-byte prefixes (all over-limit ones and those <=128 KiB) x tails x all cut sets; non-trivial = segmented, partial, deferred or multi-item", 2)
	return rep
}

// c19LimitBoundary: "payload sizes from empty up to the limit" at the limit itself. The limit is 1 GiB, so this runs
// once per check, not per execution: the payload is an untouched (all-zero) slice, which costs address space only;
// the encoder's copy makes the destination resident (about 1 GiB for a second or two).
func c19LimitBoundary() []engine.Violation {
	var out []engine.Violation
	add := func(sig, format string, a ...any) {
		out = append(out, engine.Violation{Sig: sig, Msg: fmt.Sprintf(format, a...), Config: "limit"})
	}
	defer debug.FreeOSMemory()
	func() {
		defer func() {
			if r := recover(); r != nil {
				add("codecconn.limit/panic", "panic at the size limit: %v", r)
			}
		}()
		limit := frame.MaxPayloadLength
		payload := make([]byte, limit+1)
		// exactly the limit: accepted, header + payload
		dst := sonic.NewByteBuffer()
		c := frame.NewCodec(sonic.NewByteBuffer())
		if err := c.Encode(payload[:limit], dst); err != nil {
			add("codecconn.limit/at-limit-refused", "Encode of a payload of exactly the limit (%d bytes): %v", limit, err)
		} else {
			dst.Commit(frame.HeaderLen + limit)
			if dst.ReadLen() != frame.HeaderLen+limit || binary.BigEndian.Uint32(dst.Data()[:4]) != uint32(limit) {
				add("codecconn.limit/at-limit-encoding", "Encode of %d bytes left %d bytes in the buffer, header % x", limit, dst.ReadLen(), dst.Data()[:4])
			}
		}
		dst = nil
		debug.FreeOSMemory()
		// one more: refused, nothing written
		dst2 := sonic.NewByteBuffer()
		if err := c.Encode(payload, dst2); err == nil {
			add("codecconn.limit/over-limit-accepted", "Encode of limit+1 bytes succeeded")
		}
		if dst2.WriteLen() != 0 || dst2.ReadLen() != 0 {
			add("codecconn.limit/over-limit-wrote", "a refused Encode left %d+%d bytes in the buffer", dst2.ReadLen(), dst2.WriteLen())
		}
		// decoder: a header declaring exactly the limit is an incomplete item, limit+1 is an error
		for _, d := range []struct {
			decl     uint32
			overflow bool
		}{{uint32(limit), false}, {uint32(limit) + 1, true}} {
			src := sonic.NewByteBuffer()
			dc := frame.NewCodec(src)
			var hdr [4]byte
			binary.BigEndian.PutUint32(hdr[:], d.decl)
			src.Write(hdr[:])
			_, err := dc.Decode(src)
			if d.overflow && !errors.Is(err, frame.ErrPayloadLengthOverflow) {
				add("codecconn.limit/decode-over-limit", "a header declaring limit+1 bytes: Decode returned %v", err)
			}
			if !d.overflow && !errors.Is(err, sonicerrors.ErrNeedMore) {
				add("codecconn.limit/decode-at-limit", "a header declaring exactly the limit: Decode returned %v, not need-more", err)
			}
		}
	}()
	return out
}

func C19Replay(v engine.Violation, log func(string)) *engine.Violation {
	if v.Config == "limit" {
		for _, vv := range c19LimitBoundary() {
			if vv.Sig == v.Sig {
				return &vv
			}
		}
		return nil
	}
	var which, tier string
	for i := 0; i < len(v.Config); i++ {
		if v.Config[i] == '@' {
			which, tier = v.Config[:i], v.Config[i+1:]
		}
	}
	return c19DFS(tier, which).ReplayChoices(v.Choices)
}
