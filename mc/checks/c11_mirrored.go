package checks

// C11 — MirroredBuffer is a contiguous-claim ring for every accepted size.
//
// Engine E2 over a real bytes.MirroredBuffer per size. Reference model: a ring of Size() bytes with
// (head, used). The only observable position is the address of a claim, so the oracle is physical:
// base = address of Claim(size) on the fresh buffer (its capacity spans both mappings and gives the
// harness a window on them); a claim must start at base + (head+used) mod size, have length
// min(n, free), must not touch any queued position (queued bytes are snapshotted, the claim is filled with
// fresh tags, the snapshot is compared), and every byte written through it must be visible at
// window[p mod size] and at window[p mod size + size] (the two mappings are the same memory).
// Amounts: the half-page grid {0,u,2u,..,size} and size+1 are explored to a fixpoint; the odd amounts
// {1,u+1,size-1} are allowed at most K times per history (K is part of the key), because with them the
// reachable space is size^2/2 states.
// Key = all integer fields of the implementation + model (head, used) + odd amounts spent. Memory
// content is not part of the key: nothing in the implementation reads it.

import (
	"fmt"
	"os"
	"reflect"
	"strings"
	"sync"
	"syscall"
	"unsafe"

	sbytes "github.com/talostrading/sonic/bytes"
	"verifmc/engine"
	"verifmc/kern"
)

type mbState struct {
	mb       *sbytes.MirroredBuffer
	win      []byte
	base     uintptr
	size     int
	head     int
	used     int
	odd      int
	tag      byte
	written  []bool // which ring positions hold harness-written tags (only those are compared)
	ring     []byte
	req      int
	initViol *engine.Violation
}

func mbInts(mb *sbytes.MirroredBuffer) string {
	v := reflect.ValueOf(mb).Elem()
	var sb strings.Builder
	for i := 0; i < v.NumField(); i++ {
		if v.Field(i).Kind() == reflect.Int {
			fmt.Fprintf(&sb, "%s=%d,", v.Type().Field(i).Name, v.Field(i).Int())
		}
	}
	return sb.String()
}

func mbViol(sig, format string, a ...any) *engine.Violation {
	return &engine.Violation{Sig: sig, Msg: fmt.Sprintf(format, a...)}
}

// Real buffers are pooled per requested size: constructing one costs five system calls, and the
// BFS needs a fresh instance per transition. A pooled instance is brought back to the initial state with
// Reset() — part of the API under test — and the harness then re-establishes the initial-state facts it
// relies on (Claim(size) is the whole first mapping, at the recorded base); if they do not hold the first
// operation on that instance reports it as a violation of Reset.
var mbPools sync.Map // req -> *sync.Pool

func mbNew(req int) *mbState {
	pl, _ := mbPools.LoadOrStore(req, &sync.Pool{})
	if x := pl.(*sync.Pool).Get(); x != nil {
		s := x.(*mbState)
		s.mb.Reset()
		s.head, s.used, s.odd, s.tag = 0, 0, 0, 0
		for i := range s.written {
			s.written[i] = false
		}
		c := s.mb.Claim(s.size)
		if len(c) != s.size || uintptr(unsafe.Pointer(unsafe.SliceData(c))) != s.base {
			s.initViol = mbViol("mirrored.Reset/not-initial", "after Reset() Claim(size) has length %d at offset %d", len(c), int(uintptr(unsafe.Pointer(unsafe.SliceData(c)))-s.base))
		}
		return s
	}
	mb, err := sbytes.NewMirroredBuffer(req, false)
	if err != nil {
		engine.HarnessError("NewMirroredBuffer(%d): %v", req, err)
	}
	s := &mbState{mb: mb, size: mb.Size(), req: req}
	c := mb.Claim(s.size)
	if len(c) != s.size || cap(c) < 2*s.size {
		engine.HarnessError("fresh MirroredBuffer(%d): Claim(size) len=%d cap=%d", req, len(c), cap(c))
	}
	s.win = c[:2*s.size]
	s.base = uintptr(unsafe.Pointer(unsafe.SliceData(c)))
	s.ring = make([]byte, s.size)
	s.written = make([]bool, s.size)
	return s
}

func mbFree(s *mbState) {
	if s.initViol != nil {
		s.mb.Destroy()
		return
	}
	pl, _ := mbPools.Load(s.req)
	pl.(*sync.Pool).Put(s)
}

func (s *mbState) inv() *engine.Violation {
	if s.mb.UsedSpace() != s.used {
		return mbViol("mirrored/used-count", "UsedSpace()=%d model %d (%s)", s.mb.UsedSpace(), s.used, mbInts(s.mb))
	}
	if s.mb.UsedSpace()+s.mb.FreeSpace() != s.mb.Size() {
		return mbViol("mirrored/used-plus-free", "used %d + free %d != size %d", s.mb.UsedSpace(), s.mb.FreeSpace(), s.mb.Size())
	}
	if s.mb.Full() != (s.used == s.size) {
		return mbViol("mirrored/full-flag", "Full()=%v with used %d of %d", s.mb.Full(), s.used, s.size)
	}
	// Claim does not change the buffer, so the position of the next free byte can be observed in every state:
	// a state whose write position is off is reported where it arises instead of spawning successors.
	if s.used < s.size {
		c := s.mb.Claim(1)
		if len(c) == 1 {
			tail := (s.head + s.used) % s.size
			if off := int(uintptr(unsafe.Pointer(unsafe.SliceData(c))) - s.base); off != tail {
				kind := "wrap-position"
				if s.size&(s.size-1) == 0 {
					kind = "position"
				}
				return mbViol("mirrored.Claim/"+kind, "the next claim starts at ring offset %d; %d queued bytes start at %d, so the next free position is %d (size %d, %s)", off, s.used, s.head, tail, s.size, mbInts(s.mb))
			}
		}
	}
	return nil
}

func (s *mbState) claim(n int) *engine.Violation {
	free := s.size - s.used
	want := n
	if want > free {
		want = free
	}
	c := s.mb.Claim(n)
	if len(c) != want {
		return mbViol("mirrored.Claim/length", "Claim(%d) returned %d bytes with %d free", n, len(c), free)
	}
	if want == 0 {
		return nil
	}
	tail := (s.head + s.used) % s.size
	off := int(uintptr(unsafe.Pointer(unsafe.SliceData(c))) - s.base)
	if off != tail {
		kind := "wrap-position"
		if s.size&(s.size-1) == 0 {
			kind = "position"
		}
		return mbViol("mirrored.Claim/"+kind, "Claim(%d) starts at ring offset %d; %d queued bytes start at %d, so the next free position is %d (size %d = %d pages, %s)",
			n, off, s.used, s.head, tail, s.size, s.size/syscall.Getpagesize(), mbInts(s.mb))
	}
	// snapshot queued bytes, fill the claim, compare
	for i := 0; i < want; i++ {
		p := (tail + i) % s.size
		if p >= s.head && p < s.head+s.used || p+s.size < s.head+s.used {
			return mbViol("mirrored.Claim/aliases-queued", "claim position %d is queued (head %d used %d)", p, s.head, s.used)
		}
	}
	for i := 0; i < want; i++ {
		s.tag++
		if s.tag == 0 {
			s.tag = 1
		}
		c[i] = s.tag
		p := (tail + i) % s.size
		s.ring[p] = s.tag
		s.written[p] = true
	}
	// the two mappings are one memory; queued bytes written earlier are intact
	for _, i := range []int{0, want / 2, want - 1} {
		p := (tail + i) % s.size
		if s.win[p] != s.ring[p] || s.win[p+s.size] != s.ring[p] {
			return mbViol("mirrored.Claim/not-mirrored", "byte written through the claim at ring position %d reads %d in the first mapping and %d in the second, wrote %d", p, s.win[p], s.win[p+s.size], s.ring[p])
		}
	}
	for i := 0; i < s.used; i += 97 {
		p := (s.head + i) % s.size
		if s.written[p] && s.win[p] != s.ring[p] {
			return mbViol("mirrored.Claim/queued-byte-overwritten", "queued byte at ring position %d changed from %d to %d by filling Claim(%d)", p, s.ring[p], s.win[p], n)
		}
	}
	if s.used > 0 {
		p := (s.head + s.used - 1) % s.size
		if s.written[p] && s.win[p] != s.ring[p] {
			return mbViol("mirrored.Claim/queued-byte-overwritten", "newest queued byte at ring position %d changed from %d to %d by filling Claim(%d)", p, s.ring[p], s.win[p], n)
		}
	}
	return nil
}

type mbAmount struct {
	name string
	val  func(size, u int) int
	odd  bool
}

func mbSpec(req int, oddBudget int) *engine.BFS[*mbState] {
	page := syscall.Getpagesize()
	u := page / 2
	size := req
	if r := size % page; r > 0 {
		size += page - r
	}
	var amounts []mbAmount
	for k := 0; k*u <= size; k++ {
		k := k
		amounts = append(amounts, mbAmount{fmt.Sprintf("%du", k), func(int, int) int { return k * u }, false})
	}
	amounts = append(amounts, mbAmount{"size+1", func(sz, _ int) int { return sz + 1 }, false})
	amounts = append(amounts, mbAmount{"1", func(int, int) int { return 1 }, true})
	amounts = append(amounts, mbAmount{"u+1", func(_, u int) int { return u + 1 }, true})
	amounts = append(amounts, mbAmount{"size-1", func(sz, _ int) int { return sz - 1 }, true})
	var ops []string
	type od struct {
		kind byte
		a    mbAmount
	}
	var ods []od
	for _, kind := range []struct {
		k byte
		n string
	}{{'c', "Claim"}, {'m', "Commit"}, {'s', "Consume"}} {
		for _, a := range amounts {
			ops = append(ops, fmt.Sprintf("%s(%s)", kind.n, a.name))
			ods = append(ods, od{kind.k, a})
		}
	}
	ops = append(ops, "Reset()")
	ods = append(ods, od{'r', mbAmount{}})
	return &engine.BFS[*mbState]{
		Name: fmt.Sprintf("request=%d,odd<=%d", req, oddBudget),
		// the reachable space has depth <= 10; a defect that lets an internal index drift makes it an endless chain
		Depth: 48,
		New:   func() *mbState { return mbNew(req) },
		Free:  mbFree,
		Ops:   ops,
		Apply: func(s *mbState, op int) (bool, *engine.Violation) {
			d := ods[op]
			if s.initViol != nil {
				return true, s.initViol
			}
			if d.kind == 'r' {
				s.mb.Reset()
				s.head, s.used = 0, 0
				return true, nil
			}
			n := d.a.val(s.size, u)
			if d.a.odd && d.kind != 'c' {
				if s.odd >= oddBudget {
					return false, nil
				}
				s.odd++
			}
			switch d.kind {
			case 'c':
				return true, s.claim(n)
			case 'm':
				free := s.size - s.used
				want := n
				if want > free {
					want = free
				}
				if got := s.mb.Commit(n); got != want {
					return true, mbViol("mirrored.Commit/result", "Commit(%d) = %d with %d free", n, got, free)
				}
				s.used += want
			case 's':
				want := n
				if want > s.used {
					want = s.used
				}
				if got := s.mb.Consume(n); got != want {
					return true, mbViol("mirrored.Consume/result", "Consume(%d) = %d with %d used", n, got, s.used)
				}
				s.head = (s.head + want) % s.size
				s.used -= want
			}
			return true, nil
		},
		Key: func(s *mbState) string { return fmt.Sprintf("%s|%d,%d|%d", mbInts(s.mb), s.head, s.used, s.odd) },
		Inv: func(s *mbState) *engine.Violation { return s.inv() },
	}
}

// mbLifecycle: create, use, destroy — the mappings and the backing file must be gone.
func mbLifecycle(req int, variant ...int) *engine.Violation {
	// variant 0: plain; 1: constructed with prefault; 2: Prefault() called on the live buffer ("can be called after
	// initialization")
	v := 0
	if len(variant) > 0 {
		v = variant[0]
	}
	mb, err := sbytes.NewMirroredBuffer(req, v == 1)
	if err != nil {
		engine.HarnessError("NewMirroredBuffer(%d): %v", req, err)
	}
	c := mb.Claim(mb.Size())
	base := uintptr(unsafe.Pointer(unsafe.SliceData(c)))
	size := mb.Size()
	if v == 2 {
		mb.Prefault()
		if c2 := mb.Claim(size); len(c2) != size || uintptr(unsafe.Pointer(unsafe.SliceData(c2))) != base {
			return mbViol("mirrored.Prefault/claim-changed", "after Prefault() Claim(size) has length %d at offset %d", len(c2), int(uintptr(unsafe.Pointer(unsafe.SliceData(c2)))-base))
		}
	}
	c[0] = 1
	mb.Commit(1)
	name := mb.Name()
	if err := mb.Destroy(); err != nil {
		return mbViol("mirrored.Destroy/error", "Destroy() = %v", err)
	}
	if _, err := os.Stat(name); err == nil {
		return mbViol("mirrored.Destroy/backing-file-left", "backing file %s still exists after Destroy", name)
	}
	maps, _ := os.ReadFile("/proc/self/maps")
	for _, line := range strings.Split(string(maps), "\n") {
		var lo, hi uintptr
		if _, err := fmt.Sscanf(line, "%x-%x", &lo, &hi); err == nil {
			if lo < base+uintptr(2*size) && base < hi {
				return mbViol("mirrored.Destroy/mapping-left", "mapping %s overlaps the destroyed buffer [%x,%x)", line, base, base+uintptr(2*size))
			}
		}
	}
	return nil
}

// mbLargeRing: the BFS covers 1-8 pages; whatever the constructor does differently for large sizes (alignment to huge
// pages, a different rounding) is covered here with one fixed walk per size: go round once, write through a claim that
// crosses the end of the ring, go round again and read ring positions 0..7 back through a claim that starts at the
// first mapping's first byte.
func mbLargeRequests() []int {
	p := syscall.Getpagesize()
	return []int{1<<20 + p, 2<<20 - p, 2 << 20, 2<<20 + p, 3 << 20, 3<<20 + 5*p, 4<<20 + p, 16<<20 + 3*p, 64<<20 + p, 1<<30 + p}
}

func mbLargeRing(req int) *engine.Violation {
	mb, err := sbytes.NewMirroredBuffer(req, false)
	if err != nil {
		engine.HarnessError("NewMirroredBuffer(%d): %v", req, err)
	}
	defer mb.Destroy()
	size := mb.Size()
	if size < req || size-req >= syscall.Getpagesize() {
		return mbViol("mirrored.New/size", "NewMirroredBuffer(%d).Size()=%d: not the request rounded up to a page", req, size)
	}
	c := mb.Claim(size)
	if len(c) != size {
		return mbViol("mirrored.Claim/length", "size %d: Claim(size) on a new buffer returned %d bytes", size, len(c))
	}
	base := uintptr(unsafe.Pointer(unsafe.SliceData(c)))
	round := func(n int) *engine.Violation {
		if got := mb.Commit(n); got != n {
			return mbViol("mirrored.Commit/result", "size %d: Commit(%d) = %d", size, n, got)
		}
		if got := mb.Consume(n); got != n {
			return mbViol("mirrored.Consume/result", "size %d: Consume(%d) = %d", size, n, got)
		}
		return nil
	}
	if v := round(size - 8); v != nil {
		return v
	}
	x := mb.Claim(16) // ring positions size-8 .. size+8: crosses the end
	if len(x) != 16 {
		return mbViol("mirrored.Claim/length", "size %d: Claim(16) with an empty buffer returned %d bytes", size, len(x))
	}
	if off := int(uintptr(unsafe.Pointer(unsafe.SliceData(x))) - base); off != size-8 {
		return mbViol("mirrored.Claim/wrap-position", "size %d: after committing and consuming size-8 bytes the next claim starts at offset %d, not %d", size, off, size-8)
	}
	for i := range x {
		x[i] = byte(0xA0 + i)
	}
	if v := round(16); v != nil {
		return v
	}
	if v := round(size - 8); v != nil { // tail: 8 -> size -> 0
		return v
	}
	y := mb.Claim(16)
	if len(y) != 16 {
		return mbViol("mirrored.Claim/length", "size %d: Claim(16) with an empty buffer returned %d bytes", size, len(y))
	}
	if off := int(uintptr(unsafe.Pointer(unsafe.SliceData(y))) - base); off != 0 {
		return mbViol("mirrored.Claim/wrap-position", "size %d: after going round exactly twice the next claim starts at offset %d, not 0", size, off)
	}
	for i := 0; i < 8; i++ {
		if y[i] != byte(0xA8+i) {
			return mbViol("mirrored.Claim/not-mirrored", "size %d (request %d): byte %d written through a claim that crossed the end of the ring reads %#x at ring position %d (wrote %#x): the second mapping does not start Size() bytes after the first", size, req, 8+i, y[i], i, 0xA8+i)
		}
	}
	if mb.UsedSpace() != 0 || mb.FreeSpace() != size {
		return mbViol("mirrored/used-plus-free", "size %d: used %d free %d after consuming everything", size, mb.UsedSpace(), mb.FreeSpace())
	}
	return nil
}

// mbShmFiles lists the backing files in /dev/shm whose size is `size` (sizes used by mbFailedConstruction are
// process-specific, so files of other processes never match).
func mbShmFiles(size int64) []string {
	var out []string
	ents, _ := os.ReadDir("/dev/shm")
	for _, e := range ents {
		if !strings.HasPrefix(e.Name(), "sonic-mirrored-buffer-") {
			continue
		}
		if fi, err := e.Info(); err == nil && fi.Size() == size {
			out = append(out, e.Name())
		}
	}
	return out
}

// mbFailedConstruction: the constructor is made to fail at each point that can be reached from outside — an
// invalid size (before the file exists), an address-space reservation the kernel refuses (after the file exists
// and has its size), a reservation whose length overflows — or, where the kernel grants the reservation, to
// succeed and be destroyed. Either way the descriptor census, the list of backing files and the mappings must
// be what they were.
func mbFailedConstruction() (map[string]string, []engine.Violation) {
	var out []engine.Violation
	outcomes := map[string]string{}
	p := syscall.Getpagesize()
	own := (os.Getpid()%4096 + 1) * p // process-specific offset: identifies this process' files by size
	sizes := []int{0, -1, -p, 1 << 36, 1 << 40, 1 << 44, 1 << 46, 1 << 47, 1 << 55, 1 << 62}
	dirfd := kern.OpenCensusDir()
	defer syscall.Close(dirfd)
	for _, base := range sizes {
		req := base
		if base > 0 {
			req += own
		}
		before := kern.Census(dirfd)
		mapsBefore, _ := os.ReadFile("/proc/self/maps")
		mb, err := sbytes.NewMirroredBuffer(req, false)
		outcome := "failed"
		if err == nil {
			outcome = "succeeded+Destroy"
			if mb.Size() != req {
				out = append(out, *mbViol("mirrored.New/size", "NewMirroredBuffer(%d).Size()=%d", req, mb.Size()))
			}
			if derr := mb.Destroy(); derr != nil {
				out = append(out, *mbViol("mirrored.Destroy/error", "Destroy() of a %d-byte buffer = %v", req, derr))
			}
		} else if mb != nil {
			out = append(out, *mbViol("mirrored.New/buffer-and-error", "NewMirroredBuffer(%d) returned a buffer and %v", req, err))
		}
		cfg := fmt.Sprintf("construction,request=%d", req)
		outcomes[fmt.Sprintf("%#x", base)] = fmt.Sprintf("%s (%v)", outcome, err)
		if left := mbShmFiles(int64(req)); req > 0 && len(left) > 0 {
			v := mbViol("mirrored.New/backing-file-left", "NewMirroredBuffer(%d) %s (%v) and left its backing file behind: /dev/shm/%s", req, outcome, err, strings.Join(left, " "))
			v.Config = cfg
			out = append(out, *v)
			for _, n := range left {
				os.Remove("/dev/shm/" + n)
			}
		}
		added, removed, changed := before.Diff(kern.Census(dirfd))
		if len(added)+len(removed)+len(changed) > 0 {
			v := mbViol("mirrored.New/descriptor-left", "NewMirroredBuffer(%d) %s (%v): descriptors added %s removed %v changed %v", req, outcome, err, kern.DescribeFds(added), removed, changed)
			v.Config = cfg
			out = append(out, *v)
		}
		mapsAfter, _ := os.ReadFile("/proc/self/maps")
		if nb, na := strings.Count(string(mapsBefore), "sonic-mirrored-buffer"), strings.Count(string(mapsAfter), "sonic-mirrored-buffer"); na > nb {
			v := mbViol("mirrored.New/mapping-left", "NewMirroredBuffer(%d) %s (%v): %d mappings of a backing file are left", req, outcome, err, na-nb)
			v.Config = cfg
			out = append(out, *v)
		}
	}
	// the backing file cannot be created (no descriptor is free): whatever the constructor had set up before that point —
	// an address-space reservation, for one — is released again. The soft descriptor limit is lowered to the highest
	// descriptor in use and the holes below it are filled, for the duration of the one call.
	{
		const pages = 16411 // a size no other mapping of the process has
		req := pages * p
		var lim syscall.Rlimit
		syscall.Getrlimit(syscall.RLIMIT_NOFILE, &lim)
		cen := kern.Census(dirfd)
		maxfd := dirfd
		for fd := range cen {
			if fd > maxfd {
				maxfd = fd
			}
		}
		// (opened before the table is filled: afterwards nothing can be opened)
		mapsFd, merr := syscall.Open("/proc/self/maps", syscall.O_RDONLY|syscall.O_CLOEXEC, 0)
		if merr != nil {
			engine.HarnessError("open /proc/self/maps: %v", merr)
		}
		defer syscall.Close(mapsFd)
		if mapsFd > maxfd {
			maxfd = mapsFd
		}
		readMaps := func() string {
			var sb strings.Builder
			buf := make([]byte, 1<<16)
			off := int64(0)
			for {
				n, err := syscall.Pread(mapsFd, buf, off)
				if n <= 0 || err != nil {
					break
				}
				sb.Write(buf[:n])
				off += int64(n)
			}
			return sb.String()
		}
		var fillers []int
		low := lim
		low.Cur = uint64(maxfd + 1)
		if err := syscall.Setrlimit(syscall.RLIMIT_NOFILE, &low); err == nil {
			for {
				fd, err := syscall.Open("/dev/null", syscall.O_RDONLY|syscall.O_CLOEXEC, 0)
				if err != nil {
					break
				}
				fillers = append(fillers, fd)
			}
			regions := func() map[string]bool {
				m := map[string]bool{}
				maps := readMaps()
				if maps == "" {
					engine.HarnessError("/proc/self/maps could not be read")
				}
				for _, line := range strings.Split(maps, "\n") {
					var lo, hi uintptr
					if _, err := fmt.Sscanf(line, "%x-%x", &lo, &hi); err == nil && int(hi-lo) >= req {
						m[line] = true
					}
				}
				return m
			}
			rb := regions()
			mb, err := sbytes.NewMirroredBuffer(req, false)
			ra := regions()
			syscall.Setrlimit(syscall.RLIMIT_NOFILE, &lim)
			for _, fd := range fillers {
				syscall.Close(fd)
			}
			outcome := "failed"
			if err == nil {
				outcome = "succeeded+Destroy"
				mb.Destroy()
				ra = regions()
			}
			outcomes["no descriptor free"] = fmt.Sprintf("%s (%v); mappings of at least the buffer's size before %d, after %d", outcome, err, len(rb), len(ra))
			for line := range ra {
				if !rb[line] {
					v := mbViol("mirrored.New/mapping-left", "NewMirroredBuffer(%d) with no descriptor free %s (%v) and left a mapping of at least the buffer's size behind: %s", req, outcome, err, line)
					v.Config = "construction,nofile"
					out = append(out, *v)
					break
				}
			}
			if left := mbShmFiles(int64(req)); len(left) > 0 {
				v := mbViol("mirrored.New/backing-file-left", "NewMirroredBuffer(%d) with no descriptor free %s (%v) and left its backing file behind: /dev/shm/%s", req, outcome, err, strings.Join(left, " "))
				v.Config = "construction,nofile"
				out = append(out, *v)
				for _, n := range left {
					os.Remove("/dev/shm/" + n)
				}
			}
		} else {
			outcomes["no descriptor free"] = "not run: setrlimit " + err.Error()
		}
	}
	return outcomes, out
}

// mbDestroyTwice: "destroying a buffer releases ITS mappings" — and nothing else. A is created and destroyed, B of the
// same size is created (the kernel usually puts it where A was), A is destroyed a second time (a deferred Destroy
// after an explicit one, say). B's two mappings must still be there, and still be the same memory.
func mbDestroyTwice(req int) *engine.Violation {
	a, err := sbytes.NewMirroredBuffer(req, false)
	if err != nil {
		engine.HarnessError("NewMirroredBuffer(%d): %v", req, err)
	}
	abase := uintptr(unsafe.Pointer(unsafe.SliceData(a.Claim(a.Size()))))
	if err := a.Destroy(); err != nil {
		return mbViol("mirrored.Destroy/error", "Destroy() = %v", err)
	}
	b, err := sbytes.NewMirroredBuffer(req, false)
	if err != nil {
		engine.HarnessError("NewMirroredBuffer(%d): %v", req, err)
	}
	defer b.Destroy()
	size := b.Size()
	bbase := uintptr(unsafe.Pointer(unsafe.SliceData(b.Claim(size))))
	_ = a.Destroy() // the second Destroy of A: an error is fine, touching B is not
	mapped := func(lo, hi uintptr) bool {
		maps, _ := os.ReadFile("/proc/self/maps")
		covered := lo
		for _, line := range strings.Split(string(maps), "\n") {
			var l, h uintptr
			if _, err := fmt.Sscanf(line, "%x-%x", &l, &h); err == nil && l <= covered && covered < h {
				covered = h
			}
		}
		return covered >= hi
	}
	if !mapped(bbase, bbase+uintptr(2*size)) {
		return mbViol("mirrored.Destroy/foreign-unmap", "A (%d bytes at %#x) was destroyed, B (same size) was created at %#x, A was destroyed again: B's mappings [%#x,%#x) are no longer all mapped", size, abase, bbase, bbase, bbase+uintptr(2*size))
	}
	c := b.Claim(size)
	c[0], c[size-1] = 0x5A, 0xA5
	win := unsafe.Slice((*byte)(unsafe.Pointer(bbase)), 2*size)
	if win[size] != 0x5A || win[2*size-1] != 0xA5 {
		return mbViol("mirrored.Destroy/foreign-unmap", "after A's second Destroy, B's second mapping no longer mirrors its first")
	}
	return nil
}

func mbRequests(tier string) []int {
	p := syscall.Getpagesize()
	if tier == "thorough" {
		return []int{p, 2 * p, 3 * p, 4 * p, 5 * p, 6 * p, 7 * p, 8 * p, 1, p + 1, 3*p - 1, 5*p - 7}
	}
	return []int{p, 2 * p, 3 * p, 4 * p, 5 * p, 6 * p, 1, p + 1, 3*p - 1}
}

func C11(tier string) *engine.Report {
	rep := engine.NewReport("C11", tier, "model_checking")
	var tot engine.BFSTotals
	deadline := engine.Cap(tier) // one wall-clock budget for the whole check
	budget := 2
	if tier == "thorough" {
		budget = 3
	}
	for _, req := range mbRequests(tier) {
		sp := mbSpec(req, budget)
		sp.Until = deadline
		r := sp.Run()
		if !r.Fixpoint {
			r.Capped = true // this search is meant to reach a fixpoint; anything less is reported as not exhaustive
		}
		tot.Add(sp.Name, r, rep)
		for variant := 0; variant < 3; variant++ {
			if v := mbLifecycle(req, variant); v != nil {
				v.Config = fmt.Sprintf("lifecycle,request=%d,variant=%d", req, variant)
				rep.Add(*v)
				break
			}
		}
		if v := mbDestroyTwice(req); v != nil {
			v.Config = fmt.Sprintf("destroytwice,request=%d", req)
			rep.Add(*v)
		}
	}
	for _, req := range mbLargeRequests() {
		if v := mbLargeRing(req); v != nil {
			v.Config = fmt.Sprintf("largering,request=%d", req)
			rep.Add(*v)
		}
	}
	rep.Coverage["large_rings"] = mbLargeRequests()
	nc, vs := mbFailedConstruction()
	for _, v := range vs {
		rep.Add(v)
	}
	rep.Coverage["constructions_refused_or_huge"] = nc
	tot.Fill(rep, "reachable states of a real MirroredBuffer per requested size (1-6/8 pages and three sizes that are rounded up) under Claim/Commit/Consume with amounts on the half-page grid, size+1 and "+
		"at most K odd amounts {1,u+1,size-1}, and Reset, BFS to fixpoint; state = implementation integers + model (head,used) + odd amounts spent; claims are judged by address against the ring model, "+
		"filled with tags and read back through both mappings; plus three create/use/Destroy lifecycles per size (plain, constructed with prefault, Prefault() on the live buffer) checked against /proc/self/maps and the backing file, and one destroy-A, create-B, destroy-A-again sequence per size (B keeps both mappings); plus a fixed walk (round once, write through a claim crossing the end, round again, read ring positions 0..7 back through the first mapping) for 10 large sizes from 1 MiB + 1 page to 1 GiB + 1 page around the 2 MiB multiples; plus a construction with no descriptor free and 10 constructions with invalid, huge (2^36..2^62, refused by the kernel at the reservation or granted and destroyed) sizes checked against the descriptor census, /dev/shm and the mappings")
	rep.Coverage["lifecycles"] = len(mbRequests(tier))
	return rep
}

func C11Replay(v engine.Violation, log func(string)) *engine.Violation {
	var req, odd int
	if strings.HasPrefix(v.Config, "destroytwice") {
		fmt.Sscanf(v.Config, "destroytwice,request=%d", &req)
		return mbDestroyTwice(req)
	}
	if strings.HasPrefix(v.Config, "largering") {
		fmt.Sscanf(v.Config, "largering,request=%d", &req)
		return mbLargeRing(req)
	}
	if strings.HasPrefix(v.Config, "lifecycle") {
		var variant int
		fmt.Sscanf(v.Config, "lifecycle,request=%d,variant=%d", &req, &variant)
		return mbLifecycle(req, variant)
	}
	if strings.HasPrefix(v.Config, "construction") {
		_, vs := mbFailedConstruction()
		for _, vv := range vs {
			if vv.Sig == v.Sig {
				return &vv
			}
		}
		return nil
	}
	fmt.Sscanf(v.Config, "request=%d,odd<=%d", &req, &odd)
	return mbSpec(req, odd).Replay(v.Path, log)
}
