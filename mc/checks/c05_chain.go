//go:build c05

package checks

// C05, second family — a chain of Posts made from inside posted handlers never takes the loop away from its other
// work. A posted handler that posts again (1 or 2 handlers each time) until an I/O completion it waits for has been
// delivered is the shape "retry on the loop until the read arrives"; the property promises that a Post from a
// handler running on the loop does not deadlock it. Sequential enumeration (no scheduler): the poll call the loop
// uses x when the descriptor becomes ready (before the first poll | made ready by the first handler of the chain) x
// fan-out of the chain x who starts it (the program | a posted handler). Oracle: no single poll call runs the chain
// 100 times (the chain gives up after 300 runs so that a monopolised call ends at all), the read completion is
// delivered exactly once within the first 6 poll calls, every handler of the chain ran on this goroutine, and at the
// end Posted()==0 and Pending()==0.

import (
	"fmt"
	"syscall"
	"time"

	"github.com/talostrading/sonic"
	"github.com/talostrading/sonic/verifshim"
	"verifmc/engine"
	"verifmc/kern"
)

func c05ChainBody(x *engine.X) {
	verifshim.Hooks = nil
	pollKind := x.Pick(4, "poll call: PollOne | RunOneFor(5ms) | RunOne | Poll")
	readyMid := x.Pick(2, "the descriptor becomes readable: before the first poll | written by the first handler of the chain") == 1
	fan := 1 + x.Pick(2, "handlers posted by each handler of the chain")
	startNested := x.Pick(2, "the chain is started by: the program | a posted handler") == 1
	ioc, err := sonic.NewIO()
	if err != nil {
		engine.HarnessError("NewIO: %v", err)
	}
	r, w, _ := kern.Pipe(4096)
	f, err := sonic.Open(ioc, fmt.Sprintf("/proc/self/fd/%d", r), syscall.O_RDONLY|syscall.O_NONBLOCK, 0)
	syscall.Close(r)
	if err != nil {
		engine.HarnessError("Open: %v", err)
	}
	x.Defer(func() { f.Close(); syscall.Close(w); ioc.Close() })
	served, runs, posted := 0, 0, 0
	buf := make([]byte, 8)
	f.AsyncRead(buf, func(err error, n int) {
		served++
		if err != nil || n != 3 {
			x.FailSoft("post/chain/read-result", "the read the chain waits for completed with (%v,%d), want (nil,3)", err, n)
		}
	})
	if !readyMid {
		syscall.Write(w, []byte("abc"))
	}
	var chain func()
	chain = func() {
		runs++
		if readyMid && runs == 1 {
			syscall.Write(w, []byte("abc"))
		}
		if served == 0 && posted < 300 {
			for k := 0; k < fan; k++ {
				posted++
				if err := ioc.Post(chain); err != nil {
					x.FailSoft("post/chain/Post-error", "Post from a posted handler: %v", err)
				}
			}
		}
	}
	posted++
	if startNested {
		ioc.Post(func() { ioc.Post(chain) })
	} else {
		ioc.Post(chain)
	}
	calls := 0
	for ; calls < 40 && (served == 0 || runs < posted); calls++ {
		before := runs
		var perr error
		switch pollKind {
		case 0:
			_, perr = ioc.PollOne()
		case 1:
			perr = ioc.RunOneFor(5 * time.Millisecond)
		case 2:
			perr = ioc.RunOne()
		case 3:
			perr = ioc.Poll()
		}
		_ = perr
		if got := runs - before; got >= 100 {
			x.Fail("post/chain/monopolises-poll", "one poll call (#%d) ran %d handlers of a chain of nested Posts without returning to the event wait; the readable descriptor was %s", calls+1, got, map[bool]string{true: "served only afterwards", false: "never served"}[served > 0])
			break
		}
		if calls == 5 && served == 0 {
			x.Fail("post/chain/io-starved", "6 poll calls ran %d handlers of the chain but the readable descriptor's completion was not delivered", runs)
			break
		}
	}
	x.Note("poll=%d readyMid=%v fan=%d nestedStart=%v: %d poll calls, chain ran %d of %d posted, read served %d", pollKind, readyMid, fan, startNested, calls, runs, posted, served)
	if x.Failed() {
		return
	}
	x.Nontrivial()
	if served != 1 {
		x.Fail("post/chain/read-completions", "the read completed %d times", served)
	}
	if runs != posted {
		x.Fail("post/chain/handler-count", "%d handlers of the chain were posted, %d ran", posted, runs)
	}
	if got := ioc.Posted(); got != 0 {
		x.Fail("post/Posted-inexact", "Posted()=%d after the chain ended", got)
	}
	if got := ioc.Pending(); got != 0 {
		x.Fail("post/Pending-inexact", "Pending()=%d after the chain ended and the read completed", got)
	}
	x.Outcome(fmt.Sprintf("calls%d/runs%d", calls, runs))
}

func c05ChainDFS(tier string) *engine.DFS {
	return &engine.DFS{Name: "post-chain@" + tier, Body: c05ChainBody, Procs: 4, MaxDeviations: 0, MaxPoints: 50, HangTimeout: 60 * time.Second}
}

// c05BulkBody — third family: many handlers queued before the loop runs (1 .. 1025, around the powers of two where a
// batch limit would sit), one of them posting a last one while the batch runs. Everything is posted by one goroutine
// (the program posts K handlers, then runs the loop on the same goroutine, so the late Post is that goroutine's too):
// the handlers must run exactly once each, in the order they were posted, however many poll calls the loop needs. The handler that posts while the batch runs posts 1,
// 2, or around 1024 and 3000 more.
func c05BulkBody(x *engine.X) {
	verifshim.Hooks = nil
	ks := []int{1, 2, 63, 64, 65, 127, 128, 129, 130, 255, 256, 257, 300, 1024, 1025}
	k := ks[x.Pick(len(ks), "handlers queued before the first poll")]
	pollKind := x.Pick(4, "poll call: PollOne | RunOneFor(5ms) | RunOne | Poll")
	lateFrom := []int{0, k / 2, k - 1}[x.Pick(3, "the handler that posts more: first | middle | last")]
	lates := []int{1, 2, 1023, 1024, 1025, 3000}
	m := lates[x.Pick(len(lates), "handlers it posts while the batch runs")]
	ioc, err := sonic.NewIO()
	if err != nil {
		engine.HarnessError("NewIO: %v", err)
	}
	x.Defer(func() { ioc.Close() })
	var order []int
	for i := 0; i < k; i++ {
		i := i
		if err := ioc.Post(func() {
			order = append(order, i)
			if i == lateFrom {
				for j := 0; j < m; j++ {
					j := j
					if err := ioc.Post(func() { order = append(order, k+j) }); err != nil {
						x.FailSoft("post/bulk/Post-error", "Post from a posted handler: %v", err)
					}
				}
			}
		}); err != nil {
			x.Fail("post/bulk/Post-error", "Post: %v", err)
		}
	}
	if got := ioc.Posted(); got != k {
		x.Fail("post/Posted-inexact", "Posted()=%d after %d Posts and before any poll", got, k)
	}
	if got := ioc.Pending(); got != int64(k) {
		x.Fail("post/Pending-inexact", "Pending()=%d after %d Posts and before any poll", got, k)
	}
	calls := 0
	postedSoFar := func() int { // Posts that have returned
		if len(order) > lateFrom {
			return k + m
		}
		return k
	}
	for ; calls < k+m+8 && len(order) < k+m; calls++ {
		switch pollKind {
		case 0:
			ioc.PollOne()
		case 1:
			ioc.RunOneFor(5 * time.Millisecond)
		case 2:
			ioc.RunOne()
		case 3:
			ioc.Poll()
		}
		// between polls no batch is running: what has been posted and has not run is exactly what is queued
		if got, want := ioc.Posted(), postedSoFar()-len(order); got != want && !x.Failed() {
			x.Fail("post/Posted-inexact", "after poll call %d returned: Posted()=%d, but %d handlers were posted and %d have run (Pending()=%d)", calls+1, got, postedSoFar(), len(order), ioc.Pending())
		}
		if got, want := ioc.Pending(), int64(postedSoFar()-len(order)); got != want && !x.Failed() {
			x.Fail("post/Pending-inexact", "after poll call %d returned: Pending()=%d, but %d handlers were posted and %d have run", calls+1, got, postedSoFar(), len(order))
		}
	}
	x.Note("k=%d poll=%d handler %d posts %d more: %d poll calls, %d handlers ran", k, pollKind, lateFrom, m, calls, len(order))
	x.Nontrivial()
	if x.Failed() {
		return
	}
	if len(order) != k+m {
		x.Fail("post/handler-count", "%d handlers were posted (%d before the first poll, %d by handler %d while its batch ran), %d ran in %d poll calls; Pending()=%d Posted()=%d", k+m, k, m, lateFrom, len(order), calls, ioc.Pending(), ioc.Posted())
	}
	for i, id := range order {
		if id != i {
			lo, hi := max(0, i-3), min(len(order), i+4)
			x.Fail("post/order", "handlers posted by one goroutine ran out of order: position %d ran handler %d (positions %d..%d: %v; %d queued before the first poll, the last posted from handler %d)", i, id, lo, hi-1, order[lo:hi], k, lateFrom)
		}
	}
	if got := ioc.Posted(); got != 0 {
		x.Fail("post/Posted-inexact", "Posted()=%d after every handler ran", got)
	}
	if got := ioc.Pending(); got != 0 {
		x.Fail("post/Pending-inexact", "Pending()=%d after every handler ran", got)
	}
	x.Outcome(fmt.Sprintf("bulk/%d/calls%d", k, calls))
}

func c05BulkDFS(tier string) *engine.DFS {
	return &engine.DFS{Name: "post-bulk@" + tier, Body: c05BulkBody, Procs: 4, MaxDeviations: 0, MaxPoints: 50, HangTimeout: 60 * time.Second}
}
