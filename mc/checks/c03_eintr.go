package checks

// C03, signal interruption of the blocking wait (fault enumeration, not sampling): for every ledger shape
// {one unready FIFO read; unready read + 10 s timer; unready read + a posted handler already run} x every
// blocking entry point {RunPending, RunOne, RunOneFor(10s)} x k = 1..3 signals, the loop runs on a locked
// OS thread; a helper waits until that thread sleeps in epoll_wait (/proc/self/task/<tid>/wchan), sends
// it SIGURG with tgkill (a signal the Go runtime handles, so epoll_wait fails with EINTR), repeats k times,
// and only then makes the descriptor ready. The call must not report an error (ErrTimeout is the
// documented benign result of RunOneFor), RunPending must not return before the read completed, and the
// completion must be delivered exactly once.

import (
	"errors"
	"fmt"
	"runtime"
	"strings"
	"syscall"
	"time"

	"github.com/talostrading/sonic"
	"github.com/talostrading/sonic/sonicerrors"
	"verifmc/engine"
	"verifmc/kern"
)

func awaitAsleep(tid int, guard time.Duration) bool {
	dl := time.Now().Add(guard)
	for time.Now().Before(dl) {
		if strings.Contains(kern.ThreadWchan(tid), "ep_poll") || (kern.ThreadState(tid) == 'S' && strings.Contains(kern.ThreadWchan(tid), "poll")) {
			return true
		}
		time.Sleep(50 * time.Microsecond)
	}
	return false
}

func eintrCase(entry string, shape, signals int) (viol *engine.Violation, inconclusive string) {
	ioc, err := sonic.NewIO()
	if err != nil {
		engine.HarnessError("NewIO: %v", err)
	}
	defer ioc.Close()
	r, w, _ := kern.Pipe(4096)
	defer syscall.Close(w)
	f, err := sonic.Open(ioc, fmt.Sprintf("/proc/self/fd/%d", r), syscall.O_RDONLY|syscall.O_NONBLOCK, 0)
	syscall.Close(r)
	if err != nil {
		engine.HarnessError("Open: %v", err)
	}
	defer f.Close()
	var tm *sonic.Timer
	if shape == 1 {
		tm, _ = sonic.NewTimer(ioc)
		defer tm.Close()
	}
	type result struct {
		err      error
		calls    int
		n        int
		earlyRet bool
		extra    error
	}
	tidc := make(chan int, 1)
	resc := make(chan result, 1)
	ready := make(chan struct{})
	go func() {
		runtime.LockOSThread()
		defer runtime.UnlockOSThread()
		var res result
		buf := make([]byte, 8)
		f.AsyncRead(buf, func(err error, n int) { res.calls++; res.n = n })
		if shape == 1 {
			tm.ScheduleOnce(10*time.Second, func() {})
		}
		if shape == 2 {
			ioc.Post(func() {})
			ioc.PollOne()
		}
		tidc <- syscall.Gettid()
		switch entry {
		case "RunPending":
			if shape == 1 {
				// the 10 s timer keeps RunPending waiting by design; run until the read completed instead
				for res.calls == 0 && res.err == nil {
					res.err = ioc.RunOne()
				}
			} else {
				res.err = ioc.RunPending()
			}
			res.earlyRet = res.calls == 0
		case "RunOne":
			for i := 0; i < 64 && res.calls == 0 && res.err == nil; i++ {
				res.err = ioc.RunOne()
			}
		case "RunOneFor":
			for i := 0; i < 64 && res.calls == 0; i++ {
				e := ioc.RunOneFor(10 * time.Second)
				if e != nil && !errors.Is(e, sonicerrors.ErrTimeout) {
					res.err = e
					break
				}
			}
		}
		select {
		case <-ready:
		default:
			if res.calls == 0 {
				res.earlyRet = true
			}
		}
		resc <- res
	}()
	tid := <-tidc
	for i := 0; i < signals; i++ {
		if !awaitAsleep(tid, 2*time.Second) {
			inconclusive = "loop thread never seen asleep in epoll_wait"
			break
		}
		kern.Tgkill(tid, syscall.SIGURG)
		time.Sleep(200 * time.Microsecond)
	}
	if inconclusive == "" {
		awaitAsleep(tid, 200*time.Millisecond)
	}
	close(ready)
	syscall.Write(w, []byte("abc"))
	var res result
	select {
	case res = <-resc:
	case <-time.After(15 * time.Second):
		return &engine.Violation{Sig: "io." + entry + "/eintr/hang", Msg: fmt.Sprintf("%s (shape %d) did not return within 15 s after %d signals and the descriptor becoming ready", entry, shape, signals)}, ""
	}
	if inconclusive != "" {
		return nil, inconclusive
	}
	name := fmt.Sprintf("%s shape=%d signals=%d", entry, shape, signals)
	if res.err != nil {
		return &engine.Violation{Sig: "io." + entry + "/eintr/error-reported", Msg: fmt.Sprintf("%s: a wait interrupted by a signal was reported as %v", name, res.err)}, ""
	}
	if res.calls != 1 {
		sig := "io." + entry + "/eintr/event-lost"
		if entry == "RunPending" && res.earlyRet {
			sig = "io.RunPending/eintr/returned-early"
		}
		return &engine.Violation{Sig: sig, Msg: fmt.Sprintf("%s: the read completion ran %d times (returned early: %v)", name, res.calls, res.earlyRet)}, ""
	}
	return nil, ""
}

func c03EINTR(tier string) (int, []engine.Violation) {
	var out []engine.Violation
	n := 0
	maxSig := 2
	if tier == "thorough" {
		maxSig = 4
	}
	for _, entry := range []string{"RunPending", "RunOne", "RunOneFor"} {
		for shape := 0; shape < 3; shape++ {
			for k := 1; k <= maxSig; k++ {
				v, inc := eintrCase(entry, shape, k)
				n++
				if inc != "" {
					continue
				}
				if v != nil {
					// believe it only if it fails the same way 3 more times
					stable := true
					for i := 0; i < 3; i++ {
						v2, _ := eintrCase(entry, shape, k)
						if v2 == nil || v2.Sig != v.Sig {
							stable = false
						}
					}
					if stable {
						v.Config = "eintr"
						v.Cost = k
						found := false
						for _, o := range out {
							if o.Sig == v.Sig {
								found = true
							}
						}
						if !found {
							out = append(out, *v)
						}
					}
				}
			}
		}
	}
	return n, out
}
