// Package wsref is an independent reference for RFC 6455 framing (encoder + parser) and for the
// control-plane state machine. It shares no code with sonic's codec.
package wsref

import (
	"encoding/binary"
	"fmt"
)

const (
	OpCont   = 0
	OpText   = 1
	OpBinary = 2
	OpClose  = 8
	OpPing   = 9
	OpPong   = 10
)

// Frame describes one frame; the encoding knobs allow ill-formed frames.
type Frame struct {
	Fin     bool
	Rsv     byte // bit2=RSV1 bit1=RSV2 bit0=RSV3
	Op      byte
	Masked  bool
	Key     [4]byte
	Payload []byte  // unmasked payload
	LenEnc  int     // 0 minimal; 2 force 16-bit form; 8 force 64-bit form
	Decl    *uint64 // declared length override (payload bytes present stay len(Payload))
}

func (f Frame) String() string {
	return fmt.Sprintf("{fin=%v rsv=%d op=%d masked=%v len=%d}", f.Fin, f.Rsv, f.Op, f.Masked, len(f.Payload))
}

// Encode returns the wire bytes.
func (f Frame) Encode() []byte {
	var b []byte
	b0 := f.Op & 0x0f
	if f.Fin {
		b0 |= 0x80
	}
	b0 |= (f.Rsv & 7) << 4
	b = append(b, b0)
	n := uint64(len(f.Payload))
	if f.Decl != nil {
		n = *f.Decl
	}
	enc := f.LenEnc
	if enc == 0 {
		switch {
		case n <= 125:
			enc = 0
		case n <= 0xffff:
			enc = 2
		default:
			enc = 8
		}
	}
	var b1 byte
	if f.Masked {
		b1 = 0x80
	}
	switch enc {
	case 0:
		b = append(b, b1|byte(n))
	case 2:
		b = append(b, b1|126)
		b = binary.BigEndian.AppendUint16(b, uint16(n))
	case 8:
		b = append(b, b1|127)
		b = binary.BigEndian.AppendUint64(b, n)
	}
	if f.Masked {
		b = append(b, f.Key[:]...)
		for i, c := range f.Payload {
			b = append(b, c^f.Key[i&3])
		}
	} else {
		b = append(b, f.Payload...)
	}
	return b
}

type Status int

const (
	OK Status = iota
	NeedMore
	TooBig
)

// Parsed is the result of parsing one frame from the head of a byte string.
type Parsed struct {
	Frame
	DeclLen  uint64
	LenBytes int // 0, 2 or 8
	Total    int // bytes of the whole frame
	Minimal  bool
	Raw      []byte
}

// Parse parses the first frame of b. max is the largest acceptable declared payload length.
func Parse(b []byte, max uint64) (p Parsed, st Status) {
	if len(b) < 2 {
		return p, NeedMore
	}
	p.Fin = b[0]&0x80 != 0
	p.Rsv = (b[0] >> 4) & 7
	p.Op = b[0] & 0x0f
	p.Masked = b[1]&0x80 != 0
	l7 := b[1] & 0x7f
	off := 2
	switch l7 {
	case 126:
		if len(b) < 4 {
			return p, NeedMore
		}
		p.DeclLen = uint64(binary.BigEndian.Uint16(b[2:4]))
		p.LenBytes = 2
		off = 4
		p.Minimal = p.DeclLen > 125
	case 127:
		if len(b) < 10 {
			return p, NeedMore
		}
		p.DeclLen = binary.BigEndian.Uint64(b[2:10])
		p.LenBytes = 8
		off = 10
		p.Minimal = p.DeclLen > 0xffff
	default:
		p.DeclLen = uint64(l7)
		p.Minimal = true
	}
	if p.DeclLen > max {
		return p, TooBig
	}
	if p.Masked {
		if len(b) < off+4 {
			return p, NeedMore
		}
		copy(p.Key[:], b[off:off+4])
		off += 4
	}
	if uint64(len(b)-off) < p.DeclLen {
		return p, NeedMore
	}
	p.Total = off + int(p.DeclLen)
	p.Raw = b[:p.Total]
	p.Payload = make([]byte, p.DeclLen)
	copy(p.Payload, b[off:p.Total])
	if p.Masked {
		for i := range p.Payload {
			p.Payload[i] ^= p.Key[i&3]
		}
	}
	return p, OK
}

// ParseAll parses a complete outbound byte stream into frames; rest holds trailing bytes that do not
// form a complete frame.
func ParseAll(b []byte, max uint64) (frames []Parsed, rest []byte, st Status) {
	for len(b) > 0 {
		p, s := Parse(b, max)
		if s != OK {
			return frames, b, s
		}
		frames = append(frames, p)
		b = b[p.Total:]
	}
	return frames, nil, OK
}

// ClosePayload builds a close payload.
func ClosePayload(code uint16, reason string) []byte {
	b := binary.BigEndian.AppendUint16(nil, code)
	return append(b, reason...)
}

// ValidCloseCode per RFC 6455 section 7.4.
func ValidCloseCode(c uint16) bool {
	switch c {
	case 1000, 1001, 1002, 1003, 1007, 1008, 1009, 1010, 1011, 1012, 1013:
		return true
	}
	return c >= 3000 && c <= 4999
}
