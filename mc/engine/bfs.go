package engine

import (
	"fmt"
	"runtime"
	"runtime/debug"
	"sort"
	"strings"
	"sync"
	"sync/atomic"
	"time"
)

// BFS is the explicit-state engine (E2). The real implementation object is the transition function: a
// state is reached by replaying its (shortest) op path on a fresh instance; Apply executes one op on the
// implementation and on the reference model in lock-step and compares.
type BFS[S any] struct {
	Name     string                               // configuration name (e.g. "size=6"), part of replay files
	New      func() S                             // fresh implementation + fresh reference model
	Ops      []string                             // static alphabet (labels)
	Apply    func(s S, op int) (bool, *Violation) // (enabled, violation) — disabled ops must not touch s
	Key      func(s S) string                     // canonical key; soundness argument in the check's header comment
	Inv      func(s S) *Violation                 // state invariant, evaluated once per distinct state
	Depth    int                                  // 0 = run to fixpoint
	Max      int                                  // cap on states (0 = 5e6)
	Until    time.Time                            // wall-clock cap (zero = none)
	Free     func(s S)                            // optional: release resources of a state object
	PanicSig func(op int, r any) string           // signature for a panic raised inside Apply (nil = "panic/<op>")
}

type BFSResult struct {
	States, Transitions, MaxDepth int
	Fixpoint, Capped              bool
	Violations                    []Violation
	Deepest                       [][]string
	DisabledTransitions           int
}

type bnode struct {
	path []uint16
}

type succ struct {
	key      string
	parent   int
	op       int
	viol     *Violation
	disabled bool
}

func (b *BFS[S]) labels(path []uint16) []string {
	out := make([]string, len(path))
	for i, p := range path {
		out[i] = b.Ops[p]
	}
	return out
}

func (b *BFS[S]) apply(s S, op int) (en bool, v *Violation) {
	defer func() {
		if r := recover(); r != nil {
			sig := "panic/" + b.Ops[op]
			if b.PanicSig != nil {
				sig = b.PanicSig(op, r)
			}
			st := string(debug.Stack())
			// keep the first frames below the panic for the message
			lines := strings.Split(st, "\n")
			if len(lines) > 24 {
				lines = lines[:24]
			}
			en, v = true, &Violation{Sig: sig, Msg: fmt.Sprintf("panic in %s: %v\n%s", b.Ops[op], r, strings.Join(lines, "\n"))}
		}
	}()
	return b.Apply(s, op)
}

// inv evaluates the state invariant after op; an accessor that panics on the state the op left
// behind is attributed to that op.
func (b *BFS[S]) inv(s S, op int) (v *Violation) {
	defer func() {
		if r := recover(); r != nil {
			sig := "panic-after/" + b.Ops[op]
			if b.PanicSig != nil {
				sig = b.PanicSig(op, r)
			}
			lines := strings.Split(string(debug.Stack()), "\n")
			if len(lines) > 24 {
				lines = lines[:24]
			}
			v = &Violation{Sig: sig, Msg: fmt.Sprintf("after %s an accessor panics: %v\n%s", b.Ops[op], r, strings.Join(lines, "\n"))}
		}
	}()
	return b.Inv(s)
}

// rebuild replays a path on a fresh instance. A path that worked once must work again: anything
// else means the harness does not own some nondeterminism.
func (b *BFS[S]) rebuild(path []uint16) S {
	s := b.New()
	for i, p := range path {
		en, v := b.apply(s, int(p))
		if !en || v != nil {
			HarnessError("BFS %s: replay of stored path diverged at step %d (%s): enabled=%v viol=%v", b.Name, i, b.Ops[p], en, v)
		}
	}
	return s
}

func (b *BFS[S]) Run() BFSResult {
	if len(b.Ops) >= 1<<16 {
		HarnessError("alphabet too large")
	}
	max := b.Max
	if max == 0 {
		max = 5_000_000
	}
	var res BFSResult
	seen := map[string]struct{}{}
	s0 := b.New()
	if b.Free != nil {
		defer b.Free(s0)
	}
	k0 := b.Key(s0)
	seen[k0] = struct{}{}
	res.States = 1
	if b.Inv != nil {
		if v := b.Inv(s0); v != nil {
			v.Config = b.Name
			res.Violations = append(res.Violations, *v)
		}
	}
	frontier := []bnode{{}}
	workers := runtime.GOMAXPROCS(0)
	depth := 0
	sigSeen := map[string]bool{}
	var capped atomic.Bool
	for len(frontier) > 0 {
		if b.Depth > 0 && depth >= b.Depth {
			break
		}
		if !b.Until.IsZero() && time.Now().After(b.Until) {
			res.Capped = true
			break
		}
		// expand the frontier in parallel; results are merged in a deterministic order
		out := make([][]succ, len(frontier))
		var wg sync.WaitGroup
		next := make(chan int, len(frontier))
		for i := range frontier {
			next <- i
		}
		close(next)
		for w := 0; w < workers; w++ {
			wg.Add(1)
			go func() {
				defer wg.Done()
				for i := range next {
					if !b.Until.IsZero() && time.Now().After(b.Until) {
						capped.Store(true)
						continue
					}
					n := frontier[i]
					var ss []succ
					for op := range b.Ops {
						s := b.rebuild(n.path)
						en, v := b.apply(s, op)
						switch {
						case !en:
							ss = append(ss, succ{parent: i, op: op, disabled: true})
						default:
							if v == nil && b.Inv != nil {
								v = b.inv(s, op)
							}
							if v != nil {
								ss = append(ss, succ{parent: i, op: op, viol: v})
							} else {
								ss = append(ss, succ{key: b.Key(s), parent: i, op: op})
							}
						}
						if b.Free != nil {
							b.Free(s)
						}
					}
					out[i] = ss
				}
			}()
		}
		wg.Wait()
		if capped.Load() {
			res.Capped = true
		}
		var nf []bnode
		for i := range out {
			for _, sc := range out[i] {
				if sc.disabled {
					res.DisabledTransitions++
					continue
				}
				res.Transitions++
				if sc.viol != nil {
					v := *sc.viol
					if sigSeen[v.Sig] {
						continue
					}
					sigSeen[v.Sig] = true
					p := append(append([]uint16{}, frontier[sc.parent].path...), uint16(sc.op))
					v.Path = b.labels(p)
					v.Cost = len(p)
					v.Config = b.Name
					res.Violations = append(res.Violations, v)
					continue
				}
				if _, ok := seen[sc.key]; ok {
					continue
				}
				if res.States >= max {
					res.Capped = true
					continue
				}
				seen[sc.key] = struct{}{}
				res.States++
				p := append(append(make([]uint16, 0, len(frontier[sc.parent].path)+1), frontier[sc.parent].path...), uint16(sc.op))
				nf = append(nf, bnode{path: p})
			}
		}
		if len(nf) > 0 {
			depth++
			res.MaxDepth = depth
			res.Deepest = res.Deepest[:0]
			for i := 0; i < len(nf) && i < 3; i++ {
				res.Deepest = append(res.Deepest, b.labels(nf[i].path))
			}
		}
		frontier = nf
	}
	res.Fixpoint = len(frontier) == 0 && !res.Capped
	sort.Slice(res.Violations, func(i, j int) bool { return less(res.Violations[i], res.Violations[j]) })
	return res
}

// Replay executes a stored label path verbosely; it returns the violation found, if any.
func (b *BFS[S]) Replay(path []string, log func(string)) *Violation {
	s := b.New()
	if b.Free != nil {
		defer b.Free(s)
	}
	for i, l := range path {
		op := -1
		for j, o := range b.Ops {
			if o == l {
				op = j
			}
		}
		if op < 0 {
			HarnessError("replay: unknown op %q", l)
		}
		en, v := b.apply(s, op)
		log(fmt.Sprintf("step %d %s enabled=%v key=%s", i, l, en, safeKey(b, s, v)))
		if v == nil && en && b.Inv != nil {
			v = b.inv(s, op)
		}
		if v != nil {
			return v
		}
	}
	return nil
}

func safeKey[S any](b *BFS[S], s S, v *Violation) (k string) {
	if v != nil {
		return "<violation>"
	}
	defer func() {
		if r := recover(); r != nil {
			k = fmt.Sprint("<key panics: ", r, ">")
		}
	}()
	return b.Key(s)
}

// MergeBFS accumulates per-configuration results into a report's coverage map.
type BFSTotals struct {
	States, Transitions, MaxDepth, Disabled int
	Fixpoint                                bool
	Capped                                  bool
	Configs                                 []map[string]any
	Samples                                 []any
}

func (t *BFSTotals) Add(name string, r BFSResult, rep *Report) {
	if len(t.Configs) == 0 {
		t.Fixpoint = true
	}
	t.States += r.States
	t.Transitions += r.Transitions
	t.Disabled += r.DisabledTransitions
	if r.MaxDepth > t.MaxDepth {
		t.MaxDepth = r.MaxDepth
	}
	t.Fixpoint = t.Fixpoint && r.Fixpoint
	t.Capped = t.Capped || r.Capped
	t.Configs = append(t.Configs, map[string]any{"config": name, "states": r.States, "transitions": r.Transitions,
		"max_depth": r.MaxDepth, "fixpoint": r.Fixpoint, "violations": len(r.Violations)})
	for _, d := range r.Deepest {
		if len(t.Samples) < 12 {
			t.Samples = append(t.Samples, map[string]any{"config": name, "path_to_deepest_state": d})
		}
	}
	for _, v := range r.Violations {
		rep.Add(v)
	}
}

func (t *BFSTotals) Fill(rep *Report, rule string) {
	c := rep.Coverage
	c["states"] = t.States
	c["transitions"] = t.Transitions
	c["traces_validated_against_impl"] = t.Transitions
	c["disabled_transitions"] = t.Disabled
	c["max_depth"] = t.MaxDepth
	c["fixpoint"] = t.Fixpoint
	c["exhaustive"] = !t.Capped
	c["configs"] = t.Configs
	c["samples"] = t.Samples
	c["rule"] = rule
}

// Cap is the wall-clock budget of one explicit-state search: when it expires the search stops, reports what it
// found and says exhaustive:false. (A defect can make the reachable space explode; the cap keeps the verdict coming.)
func Cap(tier string) time.Time {
	if tier == "thorough" {
		return time.Now().Add(25 * time.Minute)
	}
	return time.Now().Add(3 * time.Minute)
}
