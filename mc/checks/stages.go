package checks

// Staged thorough tiers. A depth-first search cut by its time budget cannot say which bound it completed, so the
// thorough tier of the big drivers (C01, C03, C04) is a ladder of complete searches: the quick bound first, then one
// more deviation, then one more action, then both; each rung is either finished (exhaustive within its bound) or cut
// by the budget, and the evidence says which. The bound reported as completed is that of the last finished rung.

import (
	"fmt"
	"os"
	"strings"
	"time"

	"verifmc/engine"
)

type ioStage struct{ depth, dev int }

var ioLadder = []ioStage{{4, 1}, {4, 2}, {5, 1}, {5, 2}}

func stageName(base, tier string, st ioStage) string {
	if tier != "thorough" {
		return base + "@" + tier
	}
	return fmt.Sprintf("%s@%s/d%dv%d", base, tier, st.depth, st.dev)
}

// parseStage recovers tier and stage from a violation's Config ("base@tier" or "base@tier/dDvV").
func parseStage(config string) (tier string, st ioStage) {
	st = ioLadder[0]
	at := strings.Index(config, "@")
	tier = config[at+1:]
	if i := strings.Index(tier, "/"); i >= 0 {
		fmt.Sscanf(tier[i+1:], "d%dv%d", &st.depth, &st.dev)
		tier = tier[:i]
	}
	return
}

// runLadder runs the rungs for the tier and returns the last finished one (nil if not even the first finished).
func runLadder(rep *engine.Report, tot *engine.DFSTotals, tier string, mk func(st ioStage) *engine.DFS) *ioStage {
	rungs := ioLadder[:1]
	budgets := []time.Duration{4 * time.Minute}
	if tier == "thorough" {
		rungs = ioLadder
		budgets = []time.Duration{5 * time.Minute, 6 * time.Minute, 6 * time.Minute, 8 * time.Minute}
	}
	var done *ioStage
	var stages []map[string]any
	spare := time.Duration(0)
	if os.Getenv("VERIF_DEV_SHORT_LADDER") != "" {
		// development aid only (never set by the registered commands): cut the ladder short to reach the side families
		budgets = []time.Duration{5 * time.Second, time.Second, time.Second, time.Second}
	}
	for i, st := range rungs {
		d := mk(st)
		d.Budget = budgets[i] + spare
		t0 := time.Now()
		r := d.Run()
		used := time.Since(t0)
		if used < d.Budget {
			spare = d.Budget - used
		} else {
			spare = 0
		}
		tot.Add(r, rep)
		stages = append(stages, map[string]any{"depth": st.depth, "max_deviations": st.dev, "executions": r.Executions, "finished": r.Exhaustive,
			"wall_s": int(used.Seconds()), "violations": len(r.Violations)})
		if r.Exhaustive {
			s := st
			done = &s
		}
		if len(r.Violations) > 0 {
			break // the simplest counterexamples are in hand; deeper rungs would only repeat them
		}
	}
	rep.Coverage["stages"] = stages
	return done
}

// fillLadder overrides the bound fields after DFSTotals.Fill: what is reported as completed is the last finished rung
// (a rung with an inconclusive, unstable or unrepeatable execution does not count as finished). "exhaustive" refers to
// that bound; rungs beyond it that the budget cut are listed under "stages".
func fillLadder(rep *engine.Report, done *ioStage, violations bool) {
	c := rep.Coverage
	if done == nil {
		c["exhaustive"] = false
		c["deviation_bound_completed"] = 0
		return
	}
	c["depth"] = done.depth
	c["deviation_bound_completed"] = done.dev
	c["exhaustive"] = true
}
