package checks

// C13 — no descriptor leaks, no foreign close, owners of in-flight operations stay alive.
//
// Engine E1/E4 in worker processes (the descriptor table is process-wide, so each worker is its own
// census domain; automatic GC is off inside an execution so that a finalizer cannot hide a leak).
//  (a) fail/<constructor>/<fault>: every constructor {NewIO, NewTimer, Dial, DialTimeout, Listen, Accept,
//      NewPacketConn, NewUDPPeer, Open, NewMirroredBuffer} under every applicable fault: descriptor-table
//      exhaustion at the k-th allocation for k = 1.. until the call succeeds (RLIMIT_NOFILE lowered, the table
//      filled so that exactly k-1 slots are free), connection refused, unreachable / timed-out peer, bind
//      conflict, address not local, failing option. A census (descriptor number -> device/inode/type, read
//      through a directory descriptor opened beforehand) taken before and after the failed call must be
//      equal; after a successful call Close must bring the census back.
//      Failed websocket handshakes (every non-upgrading response, blocking and async, server close after a
//      cut) are a fourth family here, driven by c18_handshake.go's lock-stepped server with the same census.
//  (b) close/...: sequences (depth <= 5) of close(o) — repeatable — and create(kind) over objects of every
//      kind; after every action every object the scenario has not closed must still own the same kernel object
//      under its descriptor number, and the census must equal the harness's own book-keeping.
//  (c) gc/...: see c13_gc.go.

import (
	"fmt"
	"golang.org/x/sys/unix"
	"net"
	"os"
	"runtime"
	"sync"
	"syscall"
	"time"

	"github.com/talostrading/sonic"
	sbytes "github.com/talostrading/sonic/bytes"
	"github.com/talostrading/sonic/multicast"
	"github.com/talostrading/sonic/sonicopts"
	"verifmc/engine"
	"verifmc/kern"
)

var (
	c13Once    sync.Once
	c13Dir     int
	c13NoFile  = 200
	c13Scratch string
)

func c13Init() {
	c13Once.Do(func() {
		c13Dir = kern.OpenCensusDir()
		var rl syscall.Rlimit
		syscall.Getrlimit(syscall.RLIMIT_NOFILE, &rl)
		rl.Cur = uint64(c13NoFile)
		if err := syscall.Setrlimit(syscall.RLIMIT_NOFILE, &rl); err != nil {
			engine.HarnessError("setrlimit: %v", err)
		}
		c13Scratch = engine.Root + "/.scratch"
	})
}

// fill opens /dev/null until the table is full, then frees exactly `free` slots.
func fillTable(free int) []int {
	var fds []int
	for {
		fd, err := syscall.Open("/dev/null", syscall.O_RDONLY|syscall.O_CLOEXEC, 0)
		if err != nil {
			break
		}
		fds = append(fds, fd)
	}
	if len(fds) < free {
		engine.HarnessError("descriptor table too small: %d fillers for %d free", len(fds), free)
	}
	for i := 0; i < free; i++ {
		syscall.Close(fds[len(fds)-1])
		fds = fds[:len(fds)-1]
	}
	return fds
}

func unfill(fds []int) {
	for _, fd := range fds {
		syscall.Close(fd)
	}
}

type c13Env struct {
	x           *engine.X
	ioc         *sonic.IO
	lfd         int // raw listener that accepts nothing (connections queue in the backlog)
	laddr       [4]byte
	lport       int
	slst        sonic.Listener // sonic listener for the accept constructor
	saddr       [4]byte
	sport       int
	queued      []int
	udpBusy     int // raw UDP socket occupying a port
	udpPort     int
	tcpBusy     int
	tcpBusyAddr [4]byte
	tcpBusyPort int
	deadPort    int
}

func newC13Env(x *engine.X) *c13Env {
	e := &c13Env{x: x}
	ioc, err := sonic.NewIO()
	if err != nil {
		engine.HarnessError("NewIO: %v", err)
	}
	e.ioc = ioc
	e.lfd, e.laddr, e.lport, _ = kern.TCPListener()
	e.saddr = kern.NextLoopback()
	l, err := sonic.Listen(ioc, "tcp", kern.AddrString(e.saddr, 0), sonicopts.Nonblocking(true))
	if err != nil {
		engine.HarnessError("Listen: %v", err)
	}
	sa, _ := syscall.Getsockname(l.RawFd())
	e.slst, e.sport = l, sa.(*syscall.SockaddrInet4).Port
	e.udpBusy, e.udpPort, _ = kern.UDPSocket()
	e.tcpBusy, e.tcpBusyAddr, e.tcpBusyPort, _ = kern.TCPListener()
	// a port nobody listens on
	d, _, p, _ := kern.TCPListener()
	syscall.Close(d)
	e.deadPort = p
	x.Defer(func() {
		for _, q := range e.queued {
			kern.Abort(q)
		}
		syscall.Close(e.lfd)
		l.Close()
		syscall.Close(e.udpBusy)
		syscall.Close(e.tcpBusy)
		ioc.Close()
	})
	return e
}

type c13Ctor struct {
	name  string
	fault string // "" = only EMFILE applies
	prep  func(e *c13Env)
	make  func(e *c13Env) (func() error, error)
}

func closeConnNoWait(c sonic.Conn) func() error {
	return func() error {
		syscall.SetsockoptLinger(c.RawFd(), syscall.SOL_SOCKET, syscall.SO_LINGER, &syscall.Linger{Onoff: 1})
		return c.Close()
	}
}

func c13Ctors() []c13Ctor {
	return []c13Ctor{
		{"NewIO", "", nil, func(e *c13Env) (func() error, error) {
			ioc, err := sonic.NewIO()
			if err != nil {
				return nil, err
			}
			return ioc.Close, nil
		}},
		{"NewTimer", "", nil, func(e *c13Env) (func() error, error) {
			t, err := sonic.NewTimer(e.ioc)
			if err != nil {
				return nil, err
			}
			return t.Close, nil
		}},
		{"Dial", "", nil, func(e *c13Env) (func() error, error) {
			c, err := sonic.Dial(e.ioc, "tcp", kern.AddrString(e.laddr, e.lport))
			if err != nil {
				return nil, err
			}
			return closeConnNoWait(c), nil
		}},
		{"Dial", "refused", nil, func(e *c13Env) (func() error, error) {
			c, err := sonic.Dial(e.ioc, "tcp", kern.AddrString(e.laddr, e.deadPort))
			if err != nil {
				return nil, err
			}
			return closeConnNoWait(c), nil
		}},
		{"DialTimeout", "unreachable-or-timeout", nil, func(e *c13Env) (func() error, error) {
			c, err := sonic.DialTimeout(e.ioc, "tcp", "192.0.2.201:9", time.Millisecond)
			if err != nil {
				return nil, err
			}
			return closeConnNoWait(c), nil
		}},
		{"Dial", "failing-option(bind to a foreign address)", nil, func(e *c13Env) (func() error, error) {
			c, err := sonic.Dial(e.ioc, "tcp", kern.AddrString(e.laddr, e.lport), sonicopts.BindSocket(&net.TCPAddr{IP: net.IPv4(192, 0, 2, 77), Port: 0}))
			if err != nil {
				return nil, err
			}
			return closeConnNoWait(c), nil
		}},
		{"DialUDP", "", nil, func(e *c13Env) (func() error, error) {
			c, err := sonic.Dial(e.ioc, "udp", fmt.Sprintf("127.0.0.1:%d", e.udpPort))
			if err != nil {
				return nil, err
			}
			return c.Close, nil
		}},
		{"Listen", "", nil, func(e *c13Env) (func() error, error) {
			l, err := sonic.Listen(e.ioc, "tcp", kern.AddrString(kern.NextLoopback(), 0))
			if err != nil {
				return nil, err
			}
			return l.Close, nil
		}},
		{"Listen", "bind-conflict", nil, func(e *c13Env) (func() error, error) {
			l, err := sonic.Listen(e.ioc, "tcp", kern.AddrString(e.tcpBusyAddr, e.tcpBusyPort))
			if err != nil {
				return nil, err
			}
			return l.Close, nil
		}},
		{"Listen", "failing-option(nodelay on a listener is fine, bind to a foreign address is not)", nil, func(e *c13Env) (func() error, error) {
			l, err := sonic.Listen(e.ioc, "tcp", kern.AddrString(kern.NextLoopback(), 0), sonicopts.BindSocket(&net.TCPAddr{IP: net.IPv4(192, 0, 2, 77)}))
			if err != nil {
				return nil, err
			}
			return l.Close, nil
		}},
		{"Accept", "", func(e *c13Env) {
			q, err := kern.ConnectRaw(e.saddr, e.sport)
			if err != nil {
				e.x.Inconclusive("connect: " + err.Error())
			}
			e.queued = append(e.queued, q)
			kern.AwaitReadable(e.slst.RawFd(), settleGuard)
		}, func(e *c13Env) (func() error, error) {
			c, err := e.slst.Accept()
			if err != nil {
				return nil, err
			}
			return closeConnNoWait(c), nil
		}},
		{"NewPacketConn", "", nil, func(e *c13Env) (func() error, error) {
			p, err := sonic.NewPacketConn(e.ioc, "udp", "127.0.0.1:0")
			if err != nil {
				return nil, err
			}
			return p.Close, nil
		}},
		{"NewPacketConn", "bind-conflict", nil, func(e *c13Env) (func() error, error) {
			p, err := sonic.NewPacketConn(e.ioc, "udp", fmt.Sprintf("127.0.0.1:%d", e.udpPort))
			if err != nil {
				return nil, err
			}
			return p.Close, nil
		}},
		{"NewUDPPeer", "", nil, func(e *c13Env) (func() error, error) {
			p, err := multicast.NewUDPPeer(e.ioc, "udp", "127.0.0.1:0")
			if err != nil {
				return nil, err
			}
			return p.Close, nil
		}},
		{"NewUDPPeer", "address-not-local", nil, func(e *c13Env) (func() error, error) {
			p, err := multicast.NewUDPPeer(e.ioc, "udp", "192.0.2.77:0")
			if err != nil {
				return nil, err
			}
			return p.Close, nil
		}},
		{"Open", "", nil, func(e *c13Env) (func() error, error) {
			f, err := sonic.Open(e.ioc, "/dev/null", syscall.O_RDONLY, 0)
			if err != nil {
				return nil, err
			}
			return f.Close, nil
		}},
		{"Open", "no-such-file", nil, func(e *c13Env) (func() error, error) {
			f, err := sonic.Open(e.ioc, c13Scratch+"/does-not-exist", syscall.O_RDONLY, 0)
			if err != nil {
				return nil, err
			}
			return f.Close, nil
		}},
		{"NewMirroredBuffer", "", nil, func(e *c13Env) (func() error, error) {
			b, err := sbytes.NewMirroredBuffer(4096, false)
			if err != nil {
				return nil, err
			}
			return b.Destroy, nil
		}},
	}
}

func censusDiff(before, after kern.CensusT) string {
	add, rem, chg := before.Diff(after)
	if len(add)+len(rem)+len(chg) == 0 {
		return ""
	}
	s := ""
	if len(add) > 0 {
		s += "left open: " + kern.DescribeFds(add)
	}
	if len(rem) > 0 {
		s += fmt.Sprintf("closed although not its own: %v ", rem)
	}
	if len(chg) > 0 {
		s += "now denote another object: " + kern.DescribeFds(chg)
	}
	return s
}

func c13Fail(x *engine.X) {
	ctors := c13Ctors()
	c := ctors[x.Pick(len(ctors), "constructor/fault")]
	e := newC13Env(x)
	if c.prep != nil {
		c.prep(e)
	}
	x.Nontrivial()
	if c.fault != "" {
		before := kern.Census(c13Dir)
		closer, err := c.make(e)
		after := kern.Census(c13Dir)
		x.Note("%s/%s -> err=%v", c.name, c.fault, err)
		if err == nil {
			// the fault did not materialise in this sandbox: treat as a success path
			closer()
			if d := censusDiff(before, kern.Census(c13Dir)); d != "" {
				x.Fail("fd/"+c.name+"/close-does-not-restore", "%s succeeded; after Close: %s", c.name, d)
			}
			x.Outcome(c.name + "/" + c.fault + "/succeeded")
			return
		}
		if d := censusDiff(before, after); d != "" {
			x.Fail("fd/"+c.name+"/"+c.fault+"/leak", "%s failed with %v and left the descriptor table changed: %s", c.name, err, d)
		}
		x.Outcome(c.name + "/" + c.fault + "/failed")
		return
	}
	// descriptor-table exhaustion at the k-th allocation
	k := 1 + x.Pick(6, "allocation that fails (k)")
	fill := fillTable(k - 1)
	before := kern.Census(c13Dir)
	closer, err := c.make(e)
	after := kern.Census(c13Dir)
	x.Note("%s with %d free slots -> err=%v", c.name, k-1, err)
	if err != nil {
		unfill(fill)
		if d := censusDiff(before, after); d != "" {
			x.Fail("fd/"+c.name+"/exhaustion/leak", "%s failed (%v) with %d free descriptor slots and left the table changed: %s", c.name, err, k-1, d)
		}
		x.Outcome(fmt.Sprintf("%s/emfile@%d/failed", c.name, k))
		return
	}
	cerr := closer()
	after2 := kern.Census(c13Dir)
	unfill(fill)
	if d := censusDiff(before, after2); d != "" {
		x.Fail("fd/"+c.name+"/close-does-not-restore", "%s succeeded with %d free slots; after Close (%v): %s", c.name, k-1, cerr, d)
	}
	x.Outcome(fmt.Sprintf("%s/emfile@%d/succeeded", c.name, k))
}

// ---- (b) close sequences ----------------------------------------------------------------------------

type c13Obj struct {
	kind        string
	fds         []int    // descriptors the object owns
	ids         []string // their identities at creation
	close       func() error
	closed      int
	owner       func() error // adapter: the net.Conn that owns the descriptor
	ownerClosed bool
	startRead   func()       // adapter: start an AsyncRead that stays in flight (nothing is sent to it)
	use         func() error // timer: ScheduleOnce(1h) — offered after Close, when it must not reach any descriptor
	used        bool
}

func c13Create(e *c13Env, kind string) *c13Obj {
	before := kern.Census(c13Dir)
	o := &c13Obj{kind: kind}
	switch kind {
	case "conn":
		c, err := sonic.Dial(e.ioc, "tcp", kern.AddrString(e.laddr, e.lport))
		if err != nil {
			e.x.Inconclusive("dial: " + err.Error())
		}
		o.close = closeConnNoWait(c)
	case "listener":
		l, err := sonic.Listen(e.ioc, "tcp", kern.AddrString(kern.NextLoopback(), 0))
		if err != nil {
			engine.HarnessError("Listen: %v", err)
		}
		o.close = l.Close
	case "packet":
		p, err := sonic.NewPacketConn(e.ioc, "udp", "127.0.0.1:0")
		if err != nil {
			engine.HarnessError("NewPacketConn: %v", err)
		}
		o.close = p.Close
	case "timer":
		t, err := sonic.NewTimer(e.ioc)
		if err != nil {
			engine.HarnessError("NewTimer: %v", err)
		}
		o.close = t.Close
		o.use = func() error { return t.ScheduleOnce(time.Hour, func() {}) }
	case "peer":
		p, err := multicast.NewUDPPeer(e.ioc, "udp", "127.0.0.1:0")
		if err != nil {
			engine.HarnessError("NewUDPPeer: %v", err)
		}
		o.close = p.Close
	case "file":
		f, err := sonic.Open(e.ioc, "/dev/null", syscall.O_RDONLY, 0)
		if err != nil {
			engine.HarnessError("Open: %v", err)
		}
		o.close = f.Close
	case "io":
		ioc, err := sonic.NewIO()
		if err != nil {
			engine.HarnessError("NewIO: %v", err)
		}
		o.close = ioc.Close
	case "adapter":
		a, b, _ := kern.SocketPair()
		f := os.NewFile(uintptr(a), "sp")
		c, err := net.FileConn(f)
		f.Close()
		syscall.Close(b)
		if err != nil {
			engine.HarnessError("FileConn: %v", err)
		}
		var ad *sonic.AsyncAdapter
		sonic.NewAsyncAdapter(e.ioc, c.(syscall.Conn), c, func(err error, x *sonic.AsyncAdapter) { ad = x })
		o.close = ad.Close
		o.owner = c.Close
		o.startRead = func() { ad.AsyncRead(make([]byte, 8), func(error, int) {}) }
	case "adapter-file":
		// the adapted object is not a net.Conn: an *os.File (one end of a pipe), which is a syscall.Conn, an
		// io.ReadWriter and an io.Closer that owns its descriptor just the same
		r, w, err := os.Pipe()
		if err != nil {
			engine.HarnessError("os.Pipe: %v", err)
		}
		w.Close()
		var ad *sonic.AsyncAdapter
		sonic.NewAsyncAdapter(e.ioc, r, r, func(err error, x *sonic.AsyncAdapter) { ad = x })
		if ad == nil {
			engine.HarnessError("NewAsyncAdapter(os.File) did not produce an adapter")
		}
		o.close = ad.Close
		o.owner = r.Close
	}
	after := kern.Census(c13Dir)
	add, _, _ := before.Diff(after)
	o.fds = add
	for _, fd := range add {
		o.ids = append(o.ids, after[fd])
	}
	return o
}

var c13Kinds = []string{"listener", "packet", "conn", "timer", "peer", "file", "adapter", "adapter-file", "io"}

func c13Close(x *engine.X) {
	e := newC13Env(x)
	var objs []*c13Obj
	x.Defer(func() {
		for _, o := range objs {
			if o.closed == 0 {
				o.close()
			}
			if o.owner != nil && !o.ownerClosed {
				o.owner()
			}
		}
	})
	first := c13Kinds[x.Pick(len(c13Kinds), "first object")]
	objs = append(objs, c13Create(e, first))
	var trace []string
	check := func(after string) {
		for i, o := range objs {
			if o.closed > 0 || o.ownerClosed {
				continue
			}
			for j, fd := range o.fds {
				if id := kern.Identity(fd); id != o.ids[j] {
					what := "is closed"
					if id != "" {
						what = "now denotes another object (" + kern.FdKind(fd) + ")"
					}
					x.Fail(fmt.Sprintf("fd/%s.Close/foreign-close", trace0(trace)), "after %s the live %s #%d lost descriptor %d: it %s (history %v)", after, o.kind, i, fd, what, trace)
				}
			}
		}
	}
	for step := 0; step < 4; step++ {
		type act struct {
			name string
			do   func()
		}
		var as []act
		for i, o := range objs {
			i, o := i, o
			as = append(as, act{fmt.Sprintf("close(%s#%d)", o.kind, i), func() {
				before := kern.Census(c13Dir)
				err := o.close()
				after := kern.Census(c13Dir)
				o.closed++
				_, rem, _ := before.Diff(after)
				if o.closed == 1 && !o.ownerClosed {
					// exactly its own descriptors
					if fmt.Sprint(rem) != fmt.Sprint(o.fds) {
						x.Fail("fd/"+o.kind+".Close/not-exactly-own", "first Close of %s (%v) closed %v, it owns %v", o.kind, err, rem, o.fds)
					}
				}
			}})
			if o.owner != nil && !o.ownerClosed {
				as = append(as, act{fmt.Sprintf("owner-close(%s#%d)", o.kind, i), func() { o.owner(); o.ownerClosed = true }})
			}
			// a closed timer is scheduled again (what the re-arming wrapper of a repeating timer does when its callback
			// closed the timer): it owns no descriptor any more, so no timer of the scenario may end up armed by it
			if o.use != nil && o.closed > 0 && !o.used {
				as = append(as, act{fmt.Sprintf("schedule-after-close(%s#%d)", o.kind, i), func() {
					o.used = true
					err := o.use()
					for j, q := range objs {
						if q.kind != "timer" || q.closed > 0 {
							continue
						}
						var cur unix.ItimerSpec
						if gerr := unix.TimerfdGettime(q.fds[0], &cur); gerr == nil && (cur.Value.Sec != 0 || cur.Value.Nsec != 0) {
							x.Fail("fd/timer.ScheduleOnce/after-close/arms-foreign-descriptor", "ScheduleOnce on the closed timer #%d returned %v and armed descriptor %d, which now belongs to the live timer #%d (history %v)", i, err, q.fds[0], j, trace)
						}
					}
				}})
			}
		}
		if len(objs) < 3 {
			for _, k := range c13Kinds {
				k := k
				as = append(as, act{"create(" + k + ")", func() { objs = append(objs, c13Create(e, k)) }})
			}
		}
		k := x.Pick(len(as)+1, "action")
		if k == 0 {
			break
		}
		trace = append(trace, as[k-1].name)
		x.Note("action %s", as[k-1].name)
		as[k-1].do()
		check(as[k-1].name)
	}
	if len(trace) > 0 {
		x.Nontrivial()
	}
	x.Outcome(fmt.Sprintf("close/%d actions", len(trace)))
}

// trace0 names the kind whose repeated Close is the decisive event (for the signature).
func trace0(trace []string) string {
	seen := map[string]int{}
	last := "object"
	for _, t := range trace {
		if len(t) > 6 && t[:6] == "close(" {
			seen[t]++
			if seen[t] > 1 {
				last = t[6 : len(t)-1]
				for i := 0; i < len(last); i++ {
					if last[i] == '#' {
						last = last[:i]
						break
					}
				}
			}
		}
		if len(t) > 12 && t[:12] == "owner-close(" {
			last = "adapter+owner"
		}
	}
	return last
}

func c13Body(x *engine.X) {
	c13Init()
	switch x.Pick(5, "family") {
	case 0:
		c13Fail(x)
	case 1:
		c13Close(x)
	case 2:
		c13GC(x)
	case 4:
		c13CloseInFlight(x)
	default:
		c18BodyOpt(x, true) // failed websocket handshakes, same census
	}
}

func c13DFS(tier string) *engine.DFS {
	return &engine.DFS{Name: "fds@" + tier, Body: c13Body, Procs: 16, WorkerProcs: 4, GCEvery: 10, ShardDepth: 3, MaxDeviations: 2, MaxPoints: 60, HangTimeout: 60 * time.Second}
}

func C13(tier string) *engine.Report {
	rep := engine.NewReport("C13", tier, "fault_enumeration")
	var tot engine.DFSTotals
	d := c13DFS(tier)
	d.Budget = 5 * time.Minute
	tot.Add(d.Run(), rep)
	tot.Fill(rep, "fail: every constructor x {descriptor exhaustion at allocation k=1..6, refused, unreachable/timeout, bind conflict, non-local address, failing option}, census before/after; "+
		"close/in-flight: every object kind x {nothing, a read, a write, both} waiting in the poller x {IO open, IO closed first: every epoll_ctl fails} x Close once|twice, census after each; close: all sequences (<=4 actions after the first object) of close (repeatable), owner-close and create over 8 object kinds with descriptor identity checks; gc: see coverage.gc; non-trivial = a fault was injected or an action taken", 2)
	rep.Assumptions = append(rep.Assumptions, "fstat identity (device, inode, type) distinguishes kernel objects", "weak pointers and runtime.GC() of go1.24 decide reachability (gc family)")
	return rep
}

func C13Replay(v engine.Violation, log func(string)) *engine.Violation {
	runtime.GC()
	return c13DFS(v.Config[4:]).ReplayChoices(v.Choices)
}
