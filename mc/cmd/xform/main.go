// xform rewrites the working-tree copies of internal/poll_linux.go and internal/eventfd.go so that every
// synchronisation operation of the poller passes through the scheduling shim, and writes a `go build
// -overlay` file that also adds the shim as the virtual package github.com/talostrading/sonic/verifshim.
// Nothing under /repo is touched. Rewrites (go/ast, so unrelated edits to those files survive):
//   sync.Mutex                         -> verifshim.Mutex
//   atomic.<F>(...) from sync/atomic   -> verifshim.<F>(...)
//   x.pending++ / x.pending--          -> verifshim.RacyAdd(&x.pending, +-1)
//   other reads of x.pending           -> verifshim.RacyLoad(&x.pending)
//   entry of (*EventFd).Read/Write     -> verifshim.Point("eventfd.read"/"eventfd.write")
// usage: xform <repo> <outdir>
package main

import (
	"bytes"
	"encoding/json"
	"fmt"
	"go/ast"
	"go/printer"
	"go/parser"
	"go/token"
	"os"
	"path/filepath"
	"strconv"
)

const shimImport = "github.com/talostrading/sonic/verifshim"

func main() {
	if len(os.Args) != 3 {
		fmt.Fprintln(os.Stderr, "usage: xform <repo> <outdir>")
		os.Exit(2)
	}
	repo, out := os.Args[1], os.Args[2]
	os.MkdirAll(out, 0o755)
	overlay := map[string]string{}
	stats := map[string]int{}
	for _, f := range []string{"internal/poll_linux.go", "internal/eventfd.go"} {
		src := filepath.Join(repo, f)
		dst := filepath.Join(out, filepath.Base(f))
		if err := rewrite(src, dst, stats); err != nil {
			fmt.Fprintln(os.Stderr, "xform:", err)
			os.Exit(2)
		}
		overlay[src] = dst
	}
	shim := filepath.Join(out, "shim.go")
	os.WriteFile(shim, []byte(shimSource), 0o644)
	overlay[filepath.Join(repo, "verifshim", "shim.go")] = shim
	b, _ := json.MarshalIndent(map[string]any{"Replace": overlay}, "", " ")
	os.WriteFile(filepath.Join(out, "overlay.json"), b, 0o644)
	sb, _ := json.Marshal(stats)
	os.WriteFile(filepath.Join(out, "xform-stats.json"), sb, 0o644)
	fmt.Println("xform:", string(sb))
}

func rewrite(src, dst string, stats map[string]int) error {
	fset := token.NewFileSet()
	file, err := parser.ParseFile(fset, src, nil, parser.ParseComments)
	if err != nil {
		return err
	}
	syncName, atomicName := "", ""
	for _, im := range file.Imports {
		p, _ := strconv.Unquote(im.Path.Value)
		name := filepath.Base(p)
		if im.Name != nil {
			name = im.Name.Name
		}
		switch p {
		case "sync":
			syncName = name
		case "sync/atomic":
			atomicName = name
		}
	}
	used := false
	shimSel := func(name string) *ast.SelectorExpr {
		used = true
		return &ast.SelectorExpr{X: ast.NewIdent("verifshim"), Sel: ast.NewIdent(name)}
	}
	isPending := func(e ast.Expr) bool {
		s, ok := e.(*ast.SelectorExpr)
		return ok && s.Sel.Name == "pending"
	}
	addr := func(e ast.Expr) ast.Expr { return &ast.UnaryExpr{Op: token.AND, X: e} }
	// pass 1: statements x.pending++ / --
	ast.Inspect(file, func(n ast.Node) bool {
		blk, ok := n.(*ast.BlockStmt)
		if !ok {
			return true
		}
		for i, st := range blk.List {
			if id, ok := st.(*ast.IncDecStmt); ok && isPending(id.X) {
				d := "1"
				if id.Tok == token.DEC {
					d = "-1"
				}
				blk.List[i] = &ast.ExprStmt{X: &ast.CallExpr{Fun: shimSel("RacyAdd"), Args: []ast.Expr{addr(id.X), &ast.BasicLit{Kind: token.INT, Value: d}}}}
				stats["pending-rmw"]++
			}
		}
		return true
	})
	// pass 2: expressions
	var fix func(e ast.Expr) ast.Expr
	fix = func(e ast.Expr) ast.Expr {
		switch v := e.(type) {
		case *ast.SelectorExpr:
			if id, ok := v.X.(*ast.Ident); ok {
				if syncName != "" && id.Name == syncName && v.Sel.Name == "Mutex" {
					stats["mutex"]++
					return shimSel("Mutex")
				}
				if atomicName != "" && id.Name == atomicName {
					stats["atomic"]++
					return shimSel(v.Sel.Name)
				}
			}
			if isPending(v) {
				stats["pending-load"]++
				return &ast.CallExpr{Fun: shimSel("RacyLoad"), Args: []ast.Expr{addr(v)}}
			}
		}
		return e
	}
	var walk func(n ast.Node)
	walk = func(n ast.Node) {
		ast.Inspect(n, func(n ast.Node) bool {
			switch v := n.(type) {
			case *ast.CallExpr:
				// do not turn &x.pending arguments of the shim calls inserted in pass 1 into loads
				if s, ok := v.Fun.(*ast.SelectorExpr); ok {
					if id, ok := s.X.(*ast.Ident); ok && id.Name == "verifshim" {
						return false
					}
				}
				v.Fun = fix(v.Fun)
				for i := range v.Args {
					if u, ok := v.Args[i].(*ast.UnaryExpr); ok && u.Op == token.AND && isPending(u.X) {
						continue // address taken (already atomic code): leave as is
					}
					v.Args[i] = fix(v.Args[i])
				}
			case *ast.Field:
				v.Type = fix(v.Type)
			case *ast.ReturnStmt:
				for i := range v.Results {
					v.Results[i] = fix(v.Results[i])
				}
			case *ast.BinaryExpr:
				v.X, v.Y = fix(v.X), fix(v.Y)
			case *ast.AssignStmt:
				for i := range v.Rhs {
					v.Rhs[i] = fix(v.Rhs[i])
				}
			case *ast.ValueSpec:
				if v.Type != nil {
					v.Type = fix(v.Type)
				}
			}
			return true
		})
	}
	walk(file)
	// pass 3: scheduling points at the entry of EventFd.Read / Write
	for _, d := range file.Decls {
		fd, ok := d.(*ast.FuncDecl)
		if !ok || fd.Recv == nil || fd.Body == nil {
			continue
		}
		rt := ""
		if st, ok := fd.Recv.List[0].Type.(*ast.StarExpr); ok {
			if id, ok := st.X.(*ast.Ident); ok {
				rt = id.Name
			}
		}
		if rt == "EventFd" && (fd.Name.Name == "Read" || fd.Name.Name == "Write") {
			call := &ast.ExprStmt{X: &ast.CallExpr{Fun: shimSel("Point"), Args: []ast.Expr{&ast.BasicLit{Kind: token.STRING, Value: strconv.Quote("eventfd." + fd.Name.Name)}}}}
			fd.Body.List = append([]ast.Stmt{call}, fd.Body.List...)
			stats["eventfd-point"]++
		}
	}
	// imports
	if used {
		var specs []ast.Spec
		for _, d := range file.Decls {
			gd, ok := d.(*ast.GenDecl)
			if !ok || gd.Tok != token.IMPORT {
				continue
			}
			specs = gd.Specs[:0]
			for _, sp := range gd.Specs {
				is := sp.(*ast.ImportSpec)
				p, _ := strconv.Unquote(is.Path.Value)
				if p == "sync" || p == "sync/atomic" {
					continue
				}
				specs = append(specs, sp)
			}
			specs = append(specs, &ast.ImportSpec{Path: &ast.BasicLit{Kind: token.STRING, Value: strconv.Quote(shimImport)}})
			gd.Specs = specs
			gd.Lparen = 1 // force parenthesised form
			break
		}
	}
	// Position-less nodes and position-bound comments do not mix in go/printer: keep only the comments
	// above the package clause (the build constraint).
	var keep []*ast.CommentGroup
	for _, cg := range file.Comments {
		if cg.End() < file.Package {
			keep = append(keep, cg)
		}
	}
	file.Comments = keep
	var buf bytes.Buffer
	if err := printer.Fprint(&buf, fset, file); err != nil {
		return err
	}
	return os.WriteFile(dst, buf.Bytes(), 0o644)
}

const shimSource = `// Package verifshim is added by the verification overlay only (see /verif/mc/cmd/xform).
package verifshim

import (
	"sync"
	"sync/atomic"
)

// H holds the hooks of the controlled scheduler. nil = pass through to the real primitives.
type H struct {
	Point  func(kind string)
	Lock    func(m *Mutex)
	Unlock  func(m *Mutex)
	TryLock func(m *Mutex) bool
}

var Hooks *H

type Mutex struct {
	real  sync.Mutex
	Held  bool
	Owner int
}

func (m *Mutex) Lock() {
	if h := Hooks; h != nil {
		h.Lock(m)
		return
	}
	m.real.Lock()
}

func (m *Mutex) Unlock() {
	if h := Hooks; h != nil {
		h.Unlock(m)
		return
	}
	m.real.Unlock()
}

func (m *Mutex) TryLock() bool {
	if h := Hooks; h != nil && h.TryLock != nil {
		return h.TryLock(m)
	}
	return m.real.TryLock()
}

func Point(kind string) {
	if h := Hooks; h != nil {
		h.Point(kind)
	}
}

// RacyAdd is the refinement the Go memory model permits for a plain read-modify-write: load, (other
// threads may run), store.
func RacyAdd(p *int64, d int64) {
	if Hooks == nil {
		*p += d
		return
	}
	v := *p
	Point("plain rmw of pending")
	*p = v + d
}

func RacyLoad(p *int64) int64 {
	Point("plain load of pending")
	return *p
}

func CompareAndSwapUint32(p *uint32, o, n uint32) bool { Point("atomic"); return atomic.CompareAndSwapUint32(p, o, n) }
func LoadUint32(p *uint32) uint32                       { Point("atomic"); return atomic.LoadUint32(p) }
func StoreUint32(p *uint32, v uint32)                   { Point("atomic"); atomic.StoreUint32(p, v) }
func AddInt64(p *int64, d int64) int64                  { Point("atomic"); return atomic.AddInt64(p, d) }
func LoadInt64(p *int64) int64                          { Point("atomic"); return atomic.LoadInt64(p) }
func StoreInt64(p *int64, v int64)                      { Point("atomic"); atomic.StoreInt64(p, v) }
func AddInt32(p *int32, d int32) int32                  { Point("atomic"); return atomic.AddInt32(p, d) }
func LoadInt32(p *int32) int32                          { Point("atomic"); return atomic.LoadInt32(p) }
func StoreInt32(p *int32, v int32)                      { Point("atomic"); atomic.StoreInt32(p, v) }
`
