package checks

// C04, family "armfail": a schedule the poller refuses. "Scheduled() tells whether a callback is still due" and a timer
// without a schedule accepts one — also right after a scheduling call that failed. The timer's descriptor is made
// unregistrable (the harness registers it in the epoll set first, so the library's EPOLL_CTL_ADD gets EEXIST; or the IO
// is closed, so every epoll_ctl gets EBADF), ScheduleOnce / ScheduleRepeating is called on a fresh timer or on one that
// has fired before, and must return an error with Scheduled() == false and no callback ever; then (EEXIST case) the
// foreign registration is removed and the same call must be accepted, fire once not before its delay (1 ms), and leave
// Pending() at 0.

import (
	"fmt"
	"time"

	"github.com/talostrading/sonic"
	"golang.org/x/sys/unix"
	"verifmc/engine"
	"verifmc/kern"
)

func c04ArmFailBody(x *engine.X) {
	refusal := x.Pick(2, "the poller refuses because: the descriptor is already in the epoll set (EEXIST) | the IO is closed")
	repeating := x.Pick(2, "ScheduleOnce | ScheduleRepeating") == 1
	firedBefore := x.Pick(2, "a fresh timer | a timer that has fired before") == 1
	epfd := lowestFreeFd()
	ioc, err := sonic.NewIO()
	if err != nil {
		engine.HarnessError("NewIO: %v", err)
	}
	iocClosed := false
	tfd := lowestFreeFd()
	t, err := sonic.NewTimer(ioc)
	if err != nil {
		engine.HarnessError("NewTimer: %v", err)
	}
	if k := kern.FdKind(tfd); k != "anon_inode:[timerfd]" {
		engine.HarnessError("expected a timerfd at %d, found %q", tfd, k)
	}
	x.Defer(func() {
		t.Close()
		if !iocClosed {
			ioc.Close()
		}
	})
	x.Note("refusal=%d repeating=%v firedBefore=%v", refusal, repeating, firedBefore)
	x.Nontrivial()
	pollFor := func(cond func() bool, d time.Duration) {
		dl := time.Now().Add(d)
		for !cond() && time.Now().Before(dl) {
			ioc.PollOne()
		}
	}
	if firedBefore {
		n := 0
		if err := t.ScheduleOnce(200*time.Microsecond, func() { n++ }); err != nil {
			x.Fail("timer/armfail/setup", "ScheduleOnce on a new timer: %v", err)
		}
		pollFor(func() bool { return n > 0 }, 5*time.Second)
		if n != 1 || t.Scheduled() {
			x.Fail("timer/armfail/setup", "a 200 us timer fired %d times, Scheduled()=%v", n, t.Scheduled())
		}
	}
	if refusal == 0 {
		if err := unix.EpollCtl(epfd, unix.EPOLL_CTL_ADD, tfd, &unix.EpollEvent{Events: 0}); err != nil {
			engine.HarnessError("epoll_ctl ADD by the harness: %v", err)
		}
	} else {
		ioc.Close()
		iocClosed = true
	}
	refused := 0
	sched := func(cb func()) error {
		if repeating {
			return t.ScheduleRepeating(time.Millisecond, cb)
		}
		return t.ScheduleOnce(time.Millisecond, cb)
	}
	serr := sched(func() { refused++ })
	if serr == nil {
		// accepted although the poller cannot deliver it: then it has to be delivered all the same
		x.Fail("timer/armfail/accepted-but-never-due", "the scheduling call returned nil although the timer's descriptor could not be registered with the poller (%s)", map[int]string{0: "EEXIST", 1: "IO closed"}[refusal])
	}
	if t.Scheduled() {
		x.Fail("timer/armfail/scheduled-after-error", "the scheduling call failed with %v, Scheduled() is true", serr)
	}
	if refusal == 1 {
		x.Outcome("armfail/closed-io")
		return
	}
	if err := unix.EpollCtl(epfd, unix.EPOLL_CTL_DEL, tfd, nil); err != nil {
		engine.HarnessError("epoll_ctl DEL by the harness: %v", err)
	}
	fired := 0
	t0 := time.Now()
	var first time.Duration
	if err := sched(func() {
		fired++
		if fired == 1 {
			first = time.Since(t0)
		}
	}); err != nil {
		x.Fail("timer/armfail/refused-afterwards", "after a scheduling call that failed (%v) the timer has no schedule, yet the next one is refused: %v (Scheduled()=%v)", serr, err, t.Scheduled())
	}
	if !t.Scheduled() {
		x.Fail("timer/armfail/not-scheduled", "an accepted schedule: Scheduled() is false")
	}
	pollFor(func() bool { return fired > 0 }, 5*time.Second)
	if repeating {
		t.Cancel()
	}
	if fired < 1 || (!repeating && fired != 1) {
		x.Fail("timer/expired-not-fired", "the schedule accepted after the failed one fired %d times within 5 s", fired)
	}
	if first < time.Millisecond {
		x.Fail("timer/fired-early", "a 1 ms schedule fired after %v", first)
	}
	if refused != 0 {
		x.Fail("timer/armfail/refused-callback-ran", "the callback of the REFUSED schedule ran %d times", refused)
	}
	if p := ioc.Pending(); p != 0 {
		x.Fail("timer/armfail/pending", "Pending()=%d with no schedule left", p)
	}
	x.Outcome(fmt.Sprintf("armfail/%v/%v", repeating, firedBefore))
}

func c04ArmFailDFS(tier string) *engine.DFS {
	return &engine.DFS{Name: "armfail@" + tier, Body: c04ArmFailBody, Procs: 4, WorkerProcs: 1, ShardDepth: 1, MaxDeviations: 0, MaxPoints: 20, HangTimeout: 60 * time.Second}
}
