package checks

// C16 — every frame the WebSocket client writes is well-formed and correctly masked.
//
// Engine E1 (in memory): real Stream on the scripted transport. A case is a sequence of <= 3 operations
// from the menu {Write, AsyncWrite (8 size classes incl. max and max+1), WriteFrame/AsyncWriteFrame of an
// AcquireFrame()d frame with a payload of a size class, with SetPayload(nil), with no SetPayload call at
// all, "peer pings, we read" (automatic Pong), Close/AsyncClose, "peer closes, we read" (automatic Close
// reply)} — so pooled frames are reused after longer and after shorter ones — x transport behaviour {every
// write accepted whole and inline; blocking writes accept 1 byte per call and async writes are deferred;
// blocking writes accept len-1 and async writes are deferred}; as a deviation a deferred transport write stays in
// flight while the next asynchronous operation (AsyncWrite, AsyncWriteFrame, AsyncClose) starts.
// Oracle: the COMPLETE outbound byte stream is parsed by the independent parser: it must be a sequence of
// whole frames with nothing left over; each frame masked, with the shortest length encoding; the data
// frames (opcode, un-masked payload) equal the successfully submitted ones, in submission order; pongs echo
// the pings; a message of max+1 bytes is refused and writes nothing.

import (
	"fmt"
	"strings"

	"github.com/talostrading/sonic/codec/websocket"
	"verifmc/engine"
	"verifmc/vstream"
	"verifmc/wsref"
)

const c16Max = 70000

type c16Ctx struct {
	x        *engine.X
	ws       *websocket.Stream
	vs       *vstream.Stream
	deferred bool
	want     []c16Want // data frames submitted, in submission order (those whose callback reported success are expected on the wire)
	pongs    []wsref.Frame
	seed     int
	holdAll  bool     // the transport completes nothing until every operation has been submitted
	after    []func() // judgements that need the operation's completion: run after the final drain
}

type c16Want struct {
	f   wsref.Frame
	err *error
}

// settle: normally the transport completes the deferred write before the next operation starts; as a deviation
// it stays in flight, so that the next asynchronous operation overlaps it (the stream has to serialise them).
func (c *c16Ctx) settle() {
	if c.holdAll {
		return
	}
	if c.deferred && c.x.Deviate(2, "the write stays in flight while the next operation starts") == 1 {
		return
	}
	c.drain()
}

func (c *c16Ctx) drain() {
	for i := 0; i < 64; i++ {
		if !c.vs.StepWrite() {
			return
		}
	}
}

type c16Op struct {
	name  string
	run   func(c *c16Ctx)
	async bool
}

func c16Menu(sizes []int) []c16Op {
	var menu []c16Op
	for _, n := range sizes {
		n := n
		for _, async := range []bool{false, true} {
			async := async
			nm := "Write"
			if async {
				nm = "AsyncWrite"
			}
			menu = append(menu, c16Op{fmt.Sprintf("%s(%d)", nm, n), func(c *c16Ctx) {
				c.seed++
				p := payloadBytes(c.seed, n)
				mt := websocket.TypeBinary
				if c.x.Deviate(2, "text instead of binary") == 1 {
					mt = websocket.TypeText
				}
				before := len(c.vs.Out)
				active := c.ws.State() == websocket.StateActive
				perr := new(error)
				if async {
					calls := new(int)
					c.ws.AsyncWrite(p, mt, func(e error) { *calls++; *perr = e })
					if n > c16Max {
						if *calls != 1 || *perr == nil || len(c.vs.Out) != before {
							c.x.Fail("wswrite/over-max-not-refused", "%s of %d bytes (max %d): callbacks=%d err=%v, %d bytes reached the wire", nm, n, c16Max, *calls, *perr, len(c.vs.Out)-before)
						}
						return
					}
					c.want = append(c.want, c16Want{wsref.Frame{Fin: true, Op: byte(mt), Payload: p}, perr})
					c.settle()
					c.after = append(c.after, func() {
						if *calls != 1 {
							c.x.Fail("wswrite/callback-count", "AsyncWrite(%d) invoked its callback %d times", n, *calls)
						}
						if *perr != nil && active {
							c.x.Fail("wswrite/refused-while-active", "%s(%d) on an active stream: %v", nm, n, *perr)
						}
					})
					return
				}
				*perr = c.ws.Write(p, mt)
				if n > c16Max {
					if *perr == nil || len(c.vs.Out) != before {
						c.x.Fail("wswrite/over-max-not-refused", "%s of %d bytes (max %d): err=%v, %d bytes reached the wire", nm, n, c16Max, *perr, len(c.vs.Out)-before)
					}
					return
				}
				if *perr == nil {
					c.want = append(c.want, c16Want{wsref.Frame{Fin: true, Op: byte(mt), Payload: p}, perr})
				} else if active {
					c.x.Fail("wswrite/refused-while-active", "%s(%d) on an active stream: %v", nm, n, *perr)
				}
			}, async})
		}
	}
	type fv struct {
		name string
		set  int // 0: SetPayload(p of size n); 1: SetPayload(nil); 2: never called
		n    int
	}
	var fvs []fv
	for _, n := range sizes {
		if n <= c16Max {
			fvs = append(fvs, fv{fmt.Sprintf("payload %d", n), 0, n})
		}
	}
	fvs = append(fvs, fv{"SetPayload(nil)", 1, 0}, fv{"no SetPayload", 2, 0})
	// the caller changes its mind: SetPayload with a payload of another length class first, then the one that is sent
	fvs = append(fvs, fv{"payload 200, then 5", 3, 5}, fv{"payload 5, then 2", 4, 2})
	for _, v := range fvs {
		v := v
		for _, async := range []bool{false, true} {
			async := async
			nm := "WriteFrame"
			if async {
				nm = "AsyncWriteFrame"
			}
			menu = append(menu, c16Op{fmt.Sprintf("%s(%s)", nm, v.name), func(c *c16Ctx) {
				c.seed++
				var p []byte
				f := c.ws.AcquireFrame()
				f.SetFIN().SetBinary()
				switch v.set {
				case 0:
					p = payloadBytes(c.seed, v.n)
					f.SetPayload(p)
				case 1:
					f.SetPayload(nil)
				case 3, 4:
					f.SetPayload(payloadBytes(c.seed+50, map[int]int{3: 200, 4: 5}[v.set]))
					p = payloadBytes(c.seed, v.n)
					f.SetPayload(p)
				}
				active := c.ws.State() == websocket.StateActive
				perr := new(error)
				if async {
					calls := new(int)
					c.ws.AsyncWriteFrame(f, func(e error) { *calls++; *perr = e })
					c.want = append(c.want, c16Want{wsref.Frame{Fin: true, Op: wsref.OpBinary, Payload: p}, perr})
					c.settle()
					c.after = append(c.after, func() {
						if *calls != 1 {
							c.x.Fail("wswrite/callback-count", "AsyncWriteFrame invoked its callback %d times", *calls)
						}
						if *perr != nil && active {
							c.x.Fail("wswrite/refused-while-active", "%s(%s) on an active stream: %v", nm, v.name, *perr)
						}
					})
					return
				}
				*perr = c.ws.WriteFrame(f)
				if *perr == nil {
					c.want = append(c.want, c16Want{wsref.Frame{Fin: true, Op: wsref.OpBinary, Payload: p}, perr})
				} else if active {
					c.x.Fail("wswrite/refused-while-active", "%s(%s) on an active stream: %v", nm, v.name, *perr)
				}
			}, async})
		}
	}
	menu = append(menu, c16Op{"peer pings, we read", func(c *c16Ctx) {
		c.seed++
		p := payloadBytes(c.seed, 5)
		if c.ws.State() == websocket.StateActive {
			c.pongs = append(c.pongs, wsref.Frame{Fin: true, Op: wsref.OpPong, Payload: p})
		}
		c.vs.Feed(wsref.Frame{Fin: true, Op: wsref.OpPing, Payload: p}.Encode())
		_, _ = c.ws.NextFrame()
		c.drain()
	}, false})
	menu = append(menu, c16Op{"peer closes, we read", func(c *c16Ctx) {
		c.vs.Feed(wsref.Frame{Fin: true, Op: wsref.OpClose, Payload: wsref.ClosePayload(3000, "bye")}.Encode())
		_, _ = c.ws.NextFrame()
		c.drain()
	}, false})
	menu = append(menu, c16Op{"Close", func(c *c16Ctx) { _ = c.ws.Close(websocket.CloseNormal, "done") }, false})
	menu = append(menu, c16Op{"AsyncClose", func(c *c16Ctx) {
		calls := new(int)
		c.ws.AsyncClose(websocket.CloseNormal, "done", func(error) { *calls++ })
		c.settle()
		c.after = append(c.after, func() {
			if *calls != 1 {
				c.x.Fail("wswrite/callback-count", "AsyncClose invoked its callback %d times", *calls)
			}
		})
	}, true})
	return menu
}

func c16Body(tier string) func(x *engine.X) {
	full := c16Menu([]int{1, 0, 125, 126, 65535, 65536, c16Max, c16Max + 1})
	small := c16Menu([]int{1, 0, 126, 200})
	return func(x *engine.X) {
		mode := x.Pick(4, "transport mode")
		nops := 1 + x.Pick(3, "number of operations")
		c := &c16Ctx{x: x, vs: vstream.New()}
		var queue []c16Op
		if mode == 3 {
			// a blocked transport: the first asynchronous write stays in flight and everything submitted after it
			// queues up behind it (3 to 5 frames deep), then the transport drains; asynchronous operations only
			c.deferred, c.holdAll = true, true
			nops = 4 + x.Pick(2, "operations queued behind the blocked write")
			for _, op := range small {
				if op.async {
					queue = append(queue, op)
				}
			}
		}
		switch mode {
		case 1:
			c.deferred = true
			c.vs.Accept = func(n int) int {
				if n > 1 {
					return 1
				}
				return n
			}
		case 2:
			c.deferred = true
			c.vs.Accept = func(n int) int {
				if n > 1 {
					return n - 1
				}
				return n
			}
			c.vs.AsyncAccept = c.vs.Accept // an asynchronous write needs two attempts as well
		}
		if c.deferred {
			c.vs.DeferWrite = func() bool { return true }
		}
		c.ws = newWS(x, c.vs, c16Max)
		var names []string
		x.Guard("wswrite/panic", func() {
			for i := 0; i < nops; i++ {
				menu := full
				if (tier != "thorough" && nops == 3) || (i == 2) {
					menu = small
				}
				if queue != nil {
					menu = queue
				}
				op := menu[x.Pick(len(menu), "operation")]
				names = append(names, op.name)
				x.Note("op %s", op.name)
				if !op.async {
					// blocking calls are not mixed with an asynchronous write in flight (that is the caller's to avoid)
					c.drain()
				}
				op.run(c)
				if c.vs.Overlap != "" {
					x.Fail("wswrite/overlapping-transport-"+c.vs.Overlap, "two transport %ss in flight after %v", c.vs.Overlap, names)
				}
			}
			c.vs.DeferWrite = nil
			c.vs.Accept = nil
			c.vs.AsyncAccept = nil
			c.drain()
			_ = c.ws.Flush()
			for _, f := range c.after {
				f()
			}
		})
		var want []wsref.Frame
		for _, w := range c.want {
			if *w.err == nil {
				want = append(want, w.f)
			}
		}
		x.Note("mode %d ops %v", mode, names)
		if nops > 1 || mode > 0 {
			x.Nontrivial()
		}
		frames, rest, st := wsref.ParseAll(c.vs.Out, 1<<40)
		describe := func() string {
			var fs []wsref.Frame
			for _, p := range frames {
				fs = append(fs, p.Frame)
			}
			return fmt.Sprintf("%v", fs)
		}
		var data, pongs []wsref.Frame
		for i, p := range frames {
			if !p.Masked {
				x.Fail("wswrite/malformed-outbound-stream", "outbound frame %d %v is not masked (ops %v; parsed %s; a stale tail of an earlier frame parses as an unmasked frame)", i, p.Frame, names, describe())
			}
			if !p.Minimal {
				x.Fail("wswrite/malformed-outbound-stream", "outbound frame %d declares %d bytes with a %d-byte length field (ops %v)", i, p.DeclLen, p.LenBytes, names)
			}
			if p.Rsv != 0 {
				x.Fail("wswrite/malformed-outbound-stream", "outbound frame %d has reserved bits %03b (ops %v)", i, p.Rsv, names)
			}
			switch p.Op {
			case wsref.OpText, wsref.OpBinary, wsref.OpCont:
				data = append(data, p.Frame)
			case wsref.OpPong:
				pongs = append(pongs, p.Frame)
			case wsref.OpClose, wsref.OpPing:
			default:
				x.Fail("wswrite/malformed-outbound-stream", "outbound frame %d has reserved opcode %d (ops %v; parsed %s)", i, p.Op, names, describe())
			}
		}
		if len(rest) != 0 || st != wsref.OK {
			x.Fail("wswrite/malformed-outbound-stream", "outbound stream ends with %d bytes that are not a whole frame (ops %v; parsed %s)", len(rest), names, describe())
		}
		if i, ok := sameFrames(data, want); !ok {
			x.Fail("wswrite/data-frames", "data frames on the wire %v, submitted %v (difference at %d; ops %v)", data, want, i, names)
		}
		if i, ok := sameFrames(pongs, c.pongs); !ok {
			x.Fail("wswrite/pongs", "pongs on the wire %v, pings received while active %v (difference at %d; ops %v)", pongs, c.pongs, i, names)
		}
		x.Outcome(fmt.Sprintf("mode%d/%dops/%dframes", mode, nops, len(frames)))
	}
}

func c16DFS(tier string) *engine.DFS {
	return &engine.DFS{Name: "writes@" + tier, Body: c16Body(tier), Procs: 16, WorkerProcs: 1, GCEvery: 50, ShardDepth: 3, MaxDeviations: 1, MaxPoints: 100}
}

func C16(tier string) *engine.Report {
	rep := engine.NewReport("C16", tier, "exploration")
	var tot engine.DFSTotals
	d := c16DFS(tier)
	tot.Add(d.Run(), rep)
	// "no trailing bytes left over from earlier frames" also across sessions: a second session on the same Stream
	// (this in-memory driver never goes through the handshake, which is what resets the write side)
	tot.Add(c18ResumedDFS(tier).Run(), rep)
	// every payload size, not only the 8 classes of the menu
	sres := c16SizesDFS(tier).Run()
	tot.Add(sres, rep)
	rep.Coverage["size_sweep"] = map[string]any{"sizes": len(c16SweepSizes), "executions": sres.Executions, "finished": sres.Exhaustive, "violations": len(sres.Violations)}
	tot.Fill(rep, "all sequences of <=3 operations from the write menu (Write/AsyncWrite x 8 size classes, WriteFrame/AsyncWriteFrame with payload / SetPayload(nil) / no SetPayload / SetPayload twice with different length classes, automatic Pong, Close/AsyncClose, automatic Close reply) x 3 transport behaviours, with a deferred transport write optionally left in flight while the next asynchronous operation starts; "+
		"the complete outbound byte stream is parsed by an independent parser; non-trivial = more than one operation or a partial/deferred transport; plus, over real TCP, the resumed-session family of the handshake driver (the server of a second session on the same Stream receives exactly the first message written); plus a sweep of every payload size 0..8300 and within 24 bytes of 16/32/64/128 KiB, blocking and asynchronous, on a fresh stream and after a 20000-byte or 1-byte message", d.MaxDeviations)
	return rep
}

func C16Replay(v engine.Violation, log func(string)) *engine.Violation {
	if strings.HasPrefix(v.Config, "resumed-session@") {
		return c18ResumedDFS(v.Config[16:]).ReplayChoices(v.Choices)
	}
	if strings.HasPrefix(v.Config, "sizes@") {
		return c16SizesDFS(v.Config[6:]).ReplayChoices(v.Choices)
	}
	tier := "quick"
	if len(v.Config) > 7 {
		tier = v.Config[7:]
	}
	return c16DFS(tier).ReplayChoices(v.Choices)
}
