package checks

// C07 — the WebSocket frame decoder is total, bounded and stays in sync.
//
// Engine E1 (in memory). Inputs are enumerated, not sampled:
//  (i)   every byte string of length <= 4 over {00,01,7D,7E,7F,80,81,FE,FF};
//  (ii)  the structured product first byte x mask bit x 7-bit length x extended length (minimal and
//        non-minimal encodings; lengths 0,1,125,126,max,max+1,65535,65536,2^31,2^63-1,2^63,2^64-1) x payload
//        presence {none, one byte short, exact, exact + next header};
//  (iii) two valid frames back to back.
// Every input is fed whole, with every single cut, with every pair of cuts (short inputs) and byte by
// byte, to a real FrameCodec.Decode on a real ByteBuffer, the way CodecConn drives it (write segment,
// decode until ErrNeedMore). Oracle: the independent parser wsref.Parse — same frames (byte-identical,
// same length), same final status (need more / rejected), all accessors safe, buffer capacity bounded by
// the configured maximum; plus encode->decode round trips for every header combination x length class.

import (
	"errors"
	"fmt"
	"math"
	"runtime/debug"
	"sort"
	"strings"
	"sync"
	"sync/atomic"

	"github.com/talostrading/sonic"
	"github.com/talostrading/sonic/codec/websocket"
	"github.com/talostrading/sonic/sonicerrors"
	"verifmc/engine"
	"verifmc/wsref"
)

type decInput struct {
	name string
	b    []byte
	max  int
}

func u64p(v uint64) *uint64 { return &v }

func c07Inputs(tier string) []decInput {
	var ins []decInput
	const max = 200
	// (i) all strings of length <= 4 over the 9-letter alphabet
	alpha := []byte{0x00, 0x01, 0x7D, 0x7E, 0x7F, 0x80, 0x81, 0xFE, 0xFF}
	var rec func(cur []byte)
	rec = func(cur []byte) {
		ins = append(ins, decInput{fmt.Sprintf("raw % x", cur), append([]byte{}, cur...), max})
		if len(cur) == 4 {
			return
		}
		for _, a := range alpha {
			rec(append(cur, a))
		}
	}
	rec(nil)
	// (ii) structured product
	type lenForm struct {
		enc  int
		decl uint64
	}
	var forms []lenForm
	for _, d := range []uint64{0, 1, 125} {
		forms = append(forms, lenForm{0, d})
	}
	for _, d := range []uint64{0, 1, 125, 126, max, max + 1, 65535} {
		forms = append(forms, lenForm{2, d})
	}
	for _, d := range []uint64{0, 1, 125, 126, max, max + 1, 65535, 65536, 1 << 31, 1<<63 - 1, 1 << 63, 1<<63 + 5, math.MaxUint64 - 1, math.MaxUint64} {
		forms = append(forms, lenForm{8, d})
	}
	first := []byte{0x81, 0x82, 0x80, 0x01, 0x02, 0x00, 0x88, 0x89, 0x8A, 0x09, 0xC1, 0xA2, 0x91, 0x83, 0x8B, 0x8F, 0xFF}
	if tier == "thorough" {
		first = first[:0]
		for i := 0; i < 256; i++ {
			first = append(first, byte(i))
		}
	}
	addStructured := func(b0 byte, masked bool, lf lenForm, pres int, mx int) {
		f := wsref.Frame{Fin: b0&0x80 != 0, Rsv: (b0 >> 4) & 7, Op: b0 & 0x0f, Masked: masked, Key: [4]byte{0xA1, 0xB2, 0xC3, 0xD4}, LenEnc: lf.enc, Decl: u64p(lf.decl)}
		have := 0
		if lf.decl <= uint64(mx)+2 {
			have = int(lf.decl)
		} else {
			have = 3 // a few payload bytes of an over-long frame
		}
		switch pres {
		case 0:
			have = 0
		case 1:
			if have > 0 {
				have--
			}
		}
		f.Payload = make([]byte, have)
		for i := range f.Payload {
			f.Payload[i] = byte(i*7 + 1)
		}
		b := f.Encode()
		if pres == 3 {
			b = append(b, 0x81, 0x01, 0x55)
		}
		ins = append(ins, decInput{fmt.Sprintf("b0=%02x masked=%v enc=%d decl=%d present=%d", b0, masked, lf.enc, lf.decl, pres), b, mx})
	}
	for _, b0 := range first {
		for _, masked := range []bool{false, true} {
			for _, lf := range forms {
				for pres := 0; pres < 4; pres++ {
					if pres == 1 && lf.decl == 0 {
						continue
					}
					addStructured(b0, masked, lf, pres, max)
				}
			}
		}
	}
	// every first byte with a one-byte payload
	for i := 0; i < 256; i++ {
		addStructured(byte(i), false, lenForm{0, 1}, 3, max)
		addStructured(byte(i), true, lenForm{0, 1}, 2, max)
	}
	// a configured maximum BELOW the 7-bit length class: lengths the header byte itself carries must be compared with it too
	for _, b0 := range []byte{0x82, 0x81, 0x02} {
		for _, masked := range []bool{false, true} {
			for _, lf := range []lenForm{{0, 0}, {0, 99}, {0, 100}, {0, 101}, {0, 125}, {2, 100}, {2, 101}, {2, 126}, {8, 100}, {8, 101}} {
				for pres := 0; pres < 4; pres++ {
					if pres == 1 && lf.decl == 0 {
						continue
					}
					addStructured(b0, masked, lf, pres, 100)
				}
			}
		}
	}
	// 64-bit encodings that are legitimate under a larger maximum
	for _, d := range []uint64{65535, 65536, 70000, 70001} {
		for pres := 1; pres < 4; pres++ {
			addStructured(0x82, false, lenForm{0, d}, pres, 70000)
			addStructured(0x82, true, lenForm{8, d}, pres, 70000)
		}
	}
	// frames around the initial capacity of the stream's receive buffer (4096): header + mask + payload end just below,
	// at and just above it, so that "reserve room for the rest" is exercised where the remainder is a few bytes
	for decl := uint64(4080); decl <= 4097; decl++ {
		for _, masked := range []bool{false, true} {
			addStructured(0x82, masked, lenForm{2, decl}, 2, 70000)
		}
	}
	// (iii') a complete frame followed by a frame of a longer length class that is still incomplete: the bytes the
	// first frame left behind in the buffer must never be taken for length or mask bytes that have not arrived
	for _, first := range []string{"hello, websocket", "\xff\xff\xff\xff\xff\xff\xff\xff\xff\xff\xff\xff"} {
		for _, masked := range []bool{false, true} {
			for _, d := range []uint64{126, 300, 65536, 70000} {
				f1 := wsref.Frame{Fin: true, Op: wsref.OpText, Payload: []byte(first)}
				f2 := wsref.Frame{Fin: true, Op: wsref.OpBinary, Masked: masked, Key: [4]byte{0x11, 0x22, 0x33, 0x44}, Decl: u64p(d), Payload: []byte{1, 2, 3}}
				ins = append(ins, decInput{fmt.Sprintf("frame %q then incomplete frame of %d bytes masked=%v", first, d, masked), append(f1.Encode(), f2.Encode()...), 70000})
			}
		}
	}
	// (iii) two valid frames back to back
	for _, l1 := range []int{0, 1, 125, 126, 200} {
		for _, l2 := range []int{0, 1, 126} {
			f1 := wsref.Frame{Fin: true, Op: wsref.OpBinary, Payload: make([]byte, l1)}
			f2 := wsref.Frame{Fin: true, Op: wsref.OpText, Payload: make([]byte, l2)}
			for i := range f1.Payload {
				f1.Payload[i] = byte(i + 1)
			}
			for i := range f2.Payload {
				f2.Payload[i] = byte(0xF0 - i)
			}
			ins = append(ins, decInput{fmt.Sprintf("two frames %d+%d", l1, l2), append(f1.Encode(), f2.Encode()...), max})
		}
	}
	return ins
}

// cutSets: nil (whole), every single cut, pairs (short inputs), byte by byte.
func c07CutSets(n int, tier string) [][]int {
	sets := [][]int{nil}
	if n <= 1 {
		return sets
	}
	var pos []int
	if n <= 40 {
		for i := 1; i < n; i++ {
			pos = append(pos, i)
		}
	} else {
		m := map[int]bool{}
		for i := 1; i <= 16 && i < n; i++ {
			m[i] = true
		}
		for _, i := range []int{n / 2, n - 4, n - 3, n - 2, n - 1} {
			if i > 0 && i < n {
				m[i] = true
			}
		}
		for i := range m {
			pos = append(pos, i)
		}
		sort.Ints(pos)
	}
	for _, p := range pos {
		sets = append(sets, []int{p})
	}
	pairMax := 16
	if tier == "thorough" {
		pairMax = 40
	}
	if n <= pairMax {
		for i := 0; i < len(pos); i++ {
			for j := i + 1; j < len(pos); j++ {
				sets = append(sets, []int{pos[i], pos[j]})
			}
		}
	}
	if n <= 300 {
		all := make([]int, 0, n-1)
		for i := 1; i < n; i++ {
			all = append(all, i)
		}
		sets = append(sets, all)
	}
	return sets
}

func split(b []byte, cuts []int) [][]byte {
	var out [][]byte
	prev := 0
	for _, c := range cuts {
		out = append(out, b[prev:c])
		prev = c
	}
	return append(out, b[prev:])
}

type decResult struct {
	frames [][]byte
	final  string // "need-more" | "rejected"
}

func c07Reference(in decInput) decResult {
	var r decResult
	b := in.b
	for {
		p, st := wsref.Parse(b, uint64(in.max))
		switch st {
		case wsref.OK:
			r.frames = append(r.frames, p.Raw)
			b = b[p.Total:]
			continue
		case wsref.NeedMore:
			r.final = "need-more"
		case wsref.TooBig:
			r.final = "rejected"
		}
		return r
	}
}

// c07Huge serialises the executions whose input declares a huge payload: a decoder that (wrongly) buffers for the
// declared length allocates gigabytes, and sixteen of those at once would take the whole machine down before the
// capacity check after Decode gets a chance to report it.
var c07Huge sync.Mutex
var c07Buffered atomic.Int32

// c07Priors: what an earlier session left in the source buffer when it was dropped.
var c07Priors = []struct {
	name string
	b    []byte
}{
	{"none (fresh buffers)", nil},
	{"a complete frame was yielded and never consumed", []byte{0x82, 0x05, 'o', 'l', 'd', '!', '!'}},
	{"one byte of a header", []byte{0x81}},
	{"header and 16-bit length, payload incomplete", append([]byte{0x82, 0x7e, 0x01, 0x00}, make([]byte, 10)...)},
}

func c07Body(ins []decInput, tier string) func(x *engine.X) {
	return func(x *engine.X) {
		in := ins[x.Pick(len(ins), "input")]
		if p, _ := wsref.Parse(in.b, math.MaxUint64); p.DeclLen > 1<<24 {
			if c07Buffered.Load() >= 6 {
				// established (and confirmed by re-execution) earlier in this run; every further such input would
				// allocate gigabytes again
				x.Fail("wsframe.Decode/unbounded-buffering", "input %s declares %d bytes: the decoder buffers for the declared length (seen and confirmed on earlier inputs of this run, not executed again)", in.name, p.DeclLen)
			}
			c07Huge.Lock()
			defer c07Huge.Unlock()
		}
		sets := c07CutSets(len(in.b), tier)
		cuts := sets[x.Pick(len(sets), "cuts")]
		x.Note("input %s (%d bytes, max %d) cuts %v", in.name, len(in.b), in.max, cuts)
		if len(cuts) > 0 {
			x.Nontrivial()
		}
		want := c07Reference(in)
		src := sonic.NewByteBuffer()
		dst := sonic.NewByteBuffer()
		// The buffers may have served an earlier session: websocket.Stream starts every (re)handshake with
		// src.Reset(), dst.Reset() and a new codec over the same two buffers. What the earlier session left in them
		// must not reach the new one.
		prior := x.Pick(len(c07Priors), "earlier session on the same buffers")
		if prior > 0 {
			x.Guard("wsframe.Decode/panic", func() {
				old := websocket.NewFrameCodec(src, dst, 1<<16)
				src.Write(c07Priors[prior].b)
				old.Decode(src)
				src.Reset()
				dst.Reset()
			})
			x.Note("earlier session: %s", c07Priors[prior].name)
		}
		codec := websocket.NewFrameCodec(src, dst, in.max)
		// Delivery: appended with Write (the buffer grows as needed), or the way a transport read delivers — into the
		// spare capacity only (websocket.Stream starts with 4096 bytes reserved; CodecConn reads into data[wi:cap]).
		// A decoder that asks for more without leaving room for it stalls the connection: the next read has a
		// zero-length buffer.
		transport := x.Pick(2, "delivery: Write | into the spare capacity, as a transport read") == 1
		if transport {
			src.Reserve(4096)
		}
		var got decResult
		capLimit := 2*(len(in.b)+in.max+14) + 1024
		if transport {
			capLimit += 4096 // what the harness reserved itself
		}
		x.Guard("wsframe.Decode/panic", func() {
			// a transport read of a segment may take several reads of whatever room there is; the pieces are cut lazily
			// below (the room depends on what the decoder did in between)
			segs := split(in.b, cuts)
		feed:
			for si := 0; si < len(segs); si++ {
				seg := segs[si]
				if !transport {
					src.Write(seg)
				} else {
					room := 0
					src.Claim(func(b []byte) int {
						room = len(b)
						return copy(b, seg)
					})
					if room == 0 {
						x.Fail("wsframe.Decode/need-more-without-room", "the decoder asked for more bytes (%d of %d delivered) but the source buffer has no spare capacity (len %d cap %d): the transport read that follows gets a zero-length buffer", len(in.b)-len(seg), len(in.b), src.Len(), src.Cap())
					}
					if room < len(seg) {
						// the rest of the segment arrives with the next read
						segs = append(segs[:si+1], append([][]byte{seg[room:]}, segs[si+1:]...)...)
					}
				}
				for {
					f, err := codec.Decode(src)
					if c := src.Cap(); c > capLimit {
						if c > 1<<24 {
							c07Buffered.Add(1)
							src.Reset()
							src.ShrinkTo(0)
							debug.FreeOSMemory()
						}
						x.Fail("wsframe.Decode/unbounded-buffering", "after Decode the source buffer has capacity %d for %d input bytes and maximum %d", c, len(in.b), in.max)
					}
					if err != nil {
						if errors.Is(err, sonicerrors.ErrNeedMore) {
							got.final = "need-more"
							continue feed
						}
						got.final = "rejected"
						break feed
					}
					got.final = ""
					// accessors must be safe on a returned frame, and consistent
					raw := append([]byte{}, f...)
					ix := len(got.frames)
					got.frames = append(got.frames, raw)
					if ix < len(want.frames) && string(raw) == string(want.frames[ix]) {
						p, _ := wsref.Parse(raw, uint64(in.max))
						if f.PayloadLength() != int(p.DeclLen) || len(f.Payload()) != int(p.DeclLen) || f.IsMasked() != p.Masked || f.IsFIN() != p.Fin || byte(f.Opcode()) != p.Op {
							x.Fail("wsframe.Decode/accessors", "frame %x: PayloadLength=%d len(Payload)=%d masked=%v, reference declares %d masked=%v", raw, f.PayloadLength(), len(f.Payload()), f.IsMasked(), p.DeclLen, p.Masked)
						}
						if p.Masked && string(f.Mask()) != string(p.Key[:]) {
							x.Fail("wsframe.Decode/accessors", "frame %x: Mask()=%x reference %x", raw, f.Mask(), p.Key)
						}
					} else {
						// touch the accessors anyway: a yielded frame must be safe to inspect
						_ = f.PayloadLength()
						_ = f.Payload()
						_ = f.Mask()
					}
				}
			}
		})
		if got.final == "" {
			got.final = "need-more" // everything consumed exactly at a frame boundary and the loop ended on a frame
		}
		x.Outcome(fmt.Sprintf("%d frames, %s", len(want.frames), want.final))
		if len(got.frames) != len(want.frames) {
			sig := "wsframe.Decode/frame-count"
			if d := c07TopBit(in); d {
				sig = "wsframe.Decode/len64-topbit/accepted"
			}
			x.Fail(sig, "decoder yielded %d frames %x, reference %d frames %x (input % x)", len(got.frames), got.frames, len(want.frames), want.frames, clip(in.b))
		}
		for i := range want.frames {
			if string(got.frames[i]) != string(want.frames[i]) {
				x.Fail("wsframe.Decode/frame-bytes", "frame %d is %x, reference %x", i, clip(got.frames[i]), clip(want.frames[i]))
			}
		}
		if got.final != want.final {
			sig := "wsframe.Decode/final-status"
			if c07TopBit(in) {
				sig = "wsframe.Decode/len64-topbit/accepted"
			}
			x.Fail(sig, "after the frames the decoder reports %q, reference %q (input % x)", got.final, want.final, clip(in.b))
		}
	}
}

func c07TopBit(in decInput) bool {
	b := in.b
	for len(b) >= 10 {
		p, st := wsref.Parse(b, uint64(in.max))
		if st == wsref.TooBig {
			return p.DeclLen >= 1<<63
		}
		if st != wsref.OK {
			return false
		}
		b = b[p.Total:]
	}
	return false
}

func clip(b []byte) []byte {
	if len(b) > 48 {
		return b[:48]
	}
	return b
}

// round trips: sonic's encoder -> sonic's decoder, and against the reference encoder.
//
// reuse=true: the Frame value is not fresh — it carried one or two earlier payloads of other length classes
// (SetPayload without Reset in between, which the API allows); the frame finally encoded must still round-trip.
func c07RoundTripBody(reuse bool) (func(x *engine.X), int) {
	lengths := []int{0, 1, 125, 126, 127, 65535, 65536, 70000}
	n := 256 * 2 * len(lengths)
	firstBytes := []byte{0x82, 0x01, 0x89}
	if reuse {
		n = len(firstBytes) * 2 * len(lengths)
	}
	return func(x *engine.X) {
		k := x.Pick(n, "header x length")
		var b0 byte
		var masked bool
		var l int
		var history []int
		if reuse {
			b0 = firstBytes[k%len(firstBytes)]
			masked = (k/len(firstBytes))%2 == 1
			l = lengths[k/(2*len(firstBytes))]
			history = append(history, lengths[x.Pick(len(lengths), "length the frame carried before")])
			if h := x.Pick(len(lengths)+1, "length the frame carried before that"); h > 0 {
				history = append([]int{lengths[h-1]}, history...)
			}
		} else {
			b0 = byte(k % 256)
			masked = (k/256)%2 == 1
			l = lengths[k/512]
		}
		x.Note("round trip b0=%02x masked=%v len=%d earlier payload lengths on the same Frame=%v", b0, masked, l, history)
		x.Nontrivial()
		payload := make([]byte, l)
		for i := range payload {
			payload[i] = byte(i*13 + 5)
		}
		x.Guard("wsframe.roundtrip/panic", func() {
			f := websocket.NewFrame()
			// the first byte is stored directly, or assembled with the builder methods: flags first and the opcode
			// last, the opcode first and the flags last, or the opcode set twice (a recycled frame that is re-labelled)
			setFlags := func() {
				if b0&0x80 != 0 {
					f.SetFIN()
				}
				if b0&0x40 != 0 {
					f.SetRSV1()
				}
				if b0&0x20 != 0 {
					f.SetRSV2()
				}
				if b0&0x10 != 0 {
					f.SetRSV3()
				}
			}
			switch x.Pick(4, "first byte: stored | builder, flags then opcode | builder, opcode then flags | builder, another opcode first, then flags, then the opcode") {
			case 0:
				f[0] = b0
			case 1:
				setFlags()
				f.SetOpcode(websocket.Opcode(b0 & 0x0f))
			case 2:
				f.SetOpcode(websocket.Opcode(b0 & 0x0f))
				setFlags()
			default:
				f.SetOpcode(websocket.Opcode((b0 & 0x0f) ^ 0x0f))
				setFlags()
				f.SetOpcode(websocket.Opcode(b0 & 0x0f))
			}
			if f[0] != b0 {
				x.Fail("wsframe.builder/first-byte", "a frame assembled with the builder methods has first byte %08b, the flags and opcode asked for give %08b", f[0], b0)
			}
			if masked {
				f.SetIsMasked()
			}
			for _, h := range history {
				f.SetPayload(make([]byte, h))
			}
			f.SetPayload(payload)
			if masked {
				copy(f.Mask(), []byte{9, 8, 7, 6})
			}
			src := sonic.NewByteBuffer()
			dst := sonic.NewByteBuffer()
			codec := websocket.NewFrameCodec(src, dst, 70000)
			if err := codec.Encode(f, dst); err != nil {
				x.Fail("wsframe.Encode/error", "Encode: %v", err)
			}
			wire := append([]byte{}, dst.Data()...)
			ref := wsref.Frame{Fin: b0&0x80 != 0, Rsv: (b0 >> 4) & 7, Op: b0 & 0xf, Masked: masked, Key: [4]byte{9, 8, 7, 6}}
			if masked {
				// SetPayload stores the bytes as given; the reference masks, so un-mask for comparison
				ref.Payload = make([]byte, l)
				for i := range payload {
					ref.Payload[i] = payload[i] ^ ref.Key[i&3]
				}
			} else {
				ref.Payload = payload
			}
			if string(wire) != string(ref.Encode()) {
				x.Fail("wsframe.Encode/wire-bytes", "encoder wrote %x, reference %x", clip(wire), clip(ref.Encode()))
			}
			src.Write(wire)
			g, err := codec.Decode(src)
			if err != nil {
				x.Fail("wsframe.roundtrip/decode-error", "Decode of an encoded frame (b0=%02x masked=%v len=%d): %v", b0, masked, l, err)
			}
			if string(g) != string(f) {
				x.Fail("wsframe.roundtrip/not-identical", "decoded frame differs from the encoded one (b0=%02x masked=%v len=%d): %x vs %x", b0, masked, l, clip(g), clip(f))
			}
			if _, err := codec.Decode(src); !errors.Is(err, sonicerrors.ErrNeedMore) || src.ReadLen() != 0 || src.WriteLen() != 0 {
				x.Fail("wsframe.roundtrip/leftover", "after the round trip Decode=%v ReadLen=%d WriteLen=%d", err, src.ReadLen(), src.WriteLen())
			}
		})
		x.Outcome("roundtrip")
	}, n
}

func c07DFS(tier, which string) *engine.DFS {
	switch which {
	case "decode":
		ins := c07Inputs(tier)
		return &engine.DFS{Name: "decode@" + tier, Body: c07Body(ins, tier), Threads: 16, ShardDepth: 1, MaxDeviations: 0}
	default:
		body, _ := c07RoundTripBody(which == "reuse")
		return &engine.DFS{Name: which + "@" + tier, Body: body, Threads: 16, ShardDepth: 1, MaxDeviations: 0}
	}
}

func C07(tier string) *engine.Report {
	rep := engine.NewReport("C07", tier, "exploration")
	var tot engine.DFSTotals
	tot.Add(c07DFS(tier, "decode").Run(), rep)
	tot.Add(c07DFS(tier, "roundtrip").Run(), rep)
	tot.Add(c07DFS(tier, "reuse").Run(), rep)
	tot.Fill(rep, "enumerated inputs (all strings <=4 over a 9-byte alphabet; structured product of first byte x mask x length encoding x declared length incl. >= 2^63 x payload presence, under maxima 200, 70000 and 100 (below the 7-bit length class); two frames back to back) "+
		"x cut sets (whole, every single cut, pairs on short inputs, byte by byte) through the real FrameCodec.Decode, compared with an independent parser; plus encoder->decoder round trips for all 256 first bytes x mask x 8 length classes on a fresh Frame, and 3 first bytes x mask x 8 classes on a Frame that carried one or two earlier payloads of every class. "+
		"non-trivial = the input was cut at least once, or a round trip", 0)
	rep.Coverage["inputs"] = len(c07Inputs(tier))
	return rep
}

func C07Replay(v engine.Violation, log func(string)) *engine.Violation {
	parts := strings.SplitN(v.Config, "@", 2)
	d := c07DFS(parts[1], parts[0])
	return d.ReplayChoices(v.Choices)
}
