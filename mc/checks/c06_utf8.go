package checks

// C06, family "utf8": the same delivery promise with ValidateUTF8(true), the only reader option that looks into
// payloads. A conforming peer sends valid UTF-8 in text messages and anything in binary ones, and may cut either
// anywhere — inside a multi-byte sequence too (RFC 6455 5.6: the message, not the fragment, is UTF-8). Every
// fragmentation of a short payload into <= 3 fragments at every byte position x {text, binary} x payload {mixed
// 1-4 byte sequences, bytes that are not UTF-8 (binary only), empty} x a ping between fragments or not x the 4 read
// APIs x inline/deferred completion, all as free choices (no deviation bound: the space is small).

import (
	"fmt"
	"time"
	"unicode/utf8"

	"verifmc/engine"
	"verifmc/vstream"
	"verifmc/wsref"
)

var c06UTF8Payloads = []struct {
	name string
	b    []byte
	text bool
}{
	{"mixed", []byte("a€b\U0001F600é"), true}, // 1+3+1+4+2 bytes
	{"two-4-byte", []byte("\U0001F600\U00010348"), true},
	{"ascii", []byte("hello"), true},
	{"not-utf8", []byte{0xff, 0xfe, 0x80, 'a', 0xc3, 0x28, 0xf0, 0x9f}, false},
	{"truncated-sequence", []byte{'a', 0xe2, 0x82}, false},
}

func allCuts(n int) [][]int {
	out := [][]int{{n}}
	for a := 0; a <= n; a++ {
		out = append(out, []int{a, n - a})
	}
	for a := 0; a <= n; a++ {
		for b := a; b <= n; b++ {
			out = append(out, []int{a, b - a, n - b})
		}
	}
	return out
}

func c06UTF8Body(x *engine.X) {
	api := x.Pick(4, "read API")
	deferred := false
	if api == 1 || api == 3 {
		deferred = x.Pick(2, "async completion inline/deferred") == 1
	}
	pk := c06UTF8Payloads[x.Pick(len(c06UTF8Payloads), "payload")]
	typ := byte(wsref.OpBinary)
	if pk.text && x.Pick(2, "binary | text") == 1 {
		typ = wsref.OpText
	}
	if typ == wsref.OpText && !utf8.Valid(pk.b) {
		engine.HarnessError("text payload %q is not UTF-8", pk.b)
	}
	cuts := allCuts(len(pk.b))
	parts := cuts[x.Pick(len(cuts), "fragmentation")]
	ping := len(parts) > 1 && x.Pick(2, "a ping between the first two fragments") == 1
	second := x.Pick(2, "a second, unfragmented text message follows") == 1
	s := &wsSession{}
	s.msgs = append(s.msgs, wsMsg{typ, pk.b})
	off := 0
	for i, l := range parts {
		if i == 1 && ping {
			f := wsref.Frame{Fin: true, Op: wsref.OpPing, Payload: []byte{0xc3}}
			s.frames, s.fmsg, s.ctls = append(s.frames, f), append(s.fmsg, -1), append(s.ctls, f)
		}
		op := typ
		if i > 0 {
			op = wsref.OpCont
		}
		s.frames = append(s.frames, wsref.Frame{Fin: i == len(parts)-1, Op: op, Payload: pk.b[off : off+l]})
		s.fmsg = append(s.fmsg, 0)
		off += l
	}
	if second {
		p := []byte("über")
		s.msgs = append(s.msgs, wsMsg{wsref.OpText, p})
		s.frames, s.fmsg = append(s.frames, wsref.Frame{Fin: true, Op: wsref.OpText, Payload: p}), append(s.fmsg, 1)
	}
	s.encode()
	x.Note("ValidateUTF8(true) %s deferred=%v payload=%s type=%d fragments=%v ping=%v second=%v", apiNames[api], deferred, pk.name, typ, parts, ping, second)
	if len(parts) > 1 {
		x.Nontrivial()
	}
	vs := vstream.New()
	vs.Feed(s.wire)
	ws := newWS(x, vs, c06Max)
	ws.ValidateUTF8(true)
	var d delivered
	x.Guard("ws.read/panic", func() {
		d = readAll(x, ws, vs, api, deferred, len(s.frames)+len(s.msgs)+3, c06Max+16)
	})
	c06Judge(x, api, s, d, vs)
	x.Outcome(fmt.Sprintf("%s/%s/%d/%dfr", apiNames[api], pk.name, typ, len(parts)))
}

func c06UTF8DFS(tier string) *engine.DFS {
	return &engine.DFS{Name: "utf8@" + tier, Body: c06UTF8Body, Procs: 16, WorkerProcs: 1, ShardDepth: 3, MaxDeviations: 0, MaxPoints: 100, HangTimeout: 60 * time.Second}
}
