package checks

// C01, family "bigwrite": exactly-once completion for a write the kernel takes in pieces. The action driver's writes
// are 3 bytes (they complete in one piece or wait whole); here one AsyncWrite / AsyncWriteAll of a buffer several
// times larger than what the descriptor can take (TCP with a small send buffer, an accepted connection, the write end
// of a FIFO) is started and the peer drains — everything at once or 16 KiB per
// step — with a poll between any two steps. The write is short at least once (the first write(2) returns fewer bytes
// than asked, without an error), parks, and is resumed by the poller. Oracle: the callback runs exactly once; for
// AsyncWriteAll with (nil, len) and not before the peer could have received everything but the kernel's buffer; for
// AsyncWrite with 0 < n <= len; the peer receives exactly the reported bytes, in order, and nothing after them.

import (
	"fmt"
	"syscall"
	"time"

	"golang.org/x/sys/unix"
	"verifmc/engine"
	"verifmc/kern"
)

func c01BigWriteBody(x *engine.X) {
	// (not the AsyncAdapter over a net.Conn: Go's net.Conn.Write blocks until everything is written, so a write larger than
	// the socket buffer needs a peer that reads concurrently — C17 drives the adapter over a raw short-writing transport)
	kinds := []string{"tcp", "acc", "fifo-w"}
	kind := kinds[x.Pick(len(kinds), "object kind")]
	all := x.Pick(2, "AsyncWrite | AsyncWriteAll") == 1
	stepwise := x.Pick(2, "the peer drains: everything it can at once | 16 KiB per step") == 1
	forced := x.Pick(2, "started: normally | at the dispatch limit (parked without trying)") == 1
	d := newIODriver(x, false)
	d.scratch = engine.Root + "/.scratch"
	o := d.newObj(kind, "X")
	size := 1 << 20
	if kind == "fifo-w" {
		size = 256 << 10
	}
	if kind == "tcp" || kind == "acc" {
		syscall.SetsockoptInt(o.rawfd, syscall.SOL_SOCKET, syscall.SO_SNDBUF, 4096)
		syscall.SetsockoptInt(o.peer, syscall.SOL_SOCKET, syscall.SO_RCVBUF, 65536)
	}
	syscall.SetNonblock(o.peer, true)
	buf := make([]byte, size)
	for i := range buf {
		buf[i] = byte(i*13 + i>>9)
	}
	calls, gotN := 0, 0
	var gotErr error
	received := 0
	cb := func(err error, n int) {
		calls++
		if calls == 1 {
			gotErr, gotN = err, n
		}
	}
	if forced {
		d.ioc.Dispatched = 32
	}
	if all {
		o.fdo.AsyncWriteAll(buf, cb)
	} else {
		o.fdo.AsyncWrite(buf, cb)
	}
	d.ioc.Dispatched = 0
	x.Note("%s %d bytes all=%v stepwise=%v forced=%v", kind, size, all, stepwise, forced)
	x.Nontrivial()
	early := calls
	rb := make([]byte, 16<<10)
	peerRead := func(limit int) {
		for limit > 0 {
			n, err := syscall.Read(o.peer, rb[:min(limit, len(rb))])
			if n <= 0 || err != nil {
				return
			}
			for i := 0; i < n; i++ {
				if rb[i] != buf[(received+i)%size] || received+i >= size {
					x.Fail(kind+".bigwrite/peer-bytes", "byte %d received by the peer is %#x, the caller's buffer has %#x there (size %d)", received+i, rb[i], buf[(received+i)%size], size)
				}
			}
			received += n
			limit -= n
		}
	}
	if all && early > 0 {
		x.Fail(kind+".bigwrite/completed-before-written", "AsyncWriteAll of %d bytes ran its callback %d times (first: err=%v n=%d) before the peer had read a single byte; the descriptor cannot hold that much", size, early, gotErr, gotN)
	}
	deadline := time.Now().Add(20 * time.Second)
	idle := 0
	for idle < 6 && time.Now().Before(deadline) {
		before := received
		if stepwise {
			peerRead(16 << 10)
		} else {
			peerRead(1 << 30)
		}
		hb := d.handlers
		d.ioc.PollOne()
		_ = hb
		if received == before {
			// nothing more arrived: wait a little for the kernel (loopback TCP acknowledgements), then count it as idle
			if kern.Poll(o.peer, unix.POLLIN, 5)&unix.POLLIN == 0 {
				idle++
			}
		} else {
			idle = 0
		}
		if calls > 0 && !all && received >= gotN {
			idle++
		}
	}
	peerRead(1 << 30)
	if calls != 1 {
		x.Fail(kind+".bigwrite/callback-count", "the completion callback of one %s of %d bytes ran %d times (first: err=%v n=%d; the peer received %d bytes)", map[bool]string{true: "AsyncWriteAll", false: "AsyncWrite"}[all], size, calls, gotErr, gotN, received)
	}
	if gotErr != nil {
		x.Fail(kind+".bigwrite/error", "the write completed with %v after %d bytes (peer received %d)", gotErr, gotN, received)
	}
	if all && gotN != size {
		x.Fail(kind+".bigwrite/short-success", "AsyncWriteAll of %d bytes reported (nil, %d)", size, gotN)
	}
	if gotN <= 0 || gotN > size {
		x.Fail(kind+".bigwrite/count", "the write of %d bytes reported n=%d", size, gotN)
	}
	if received != gotN {
		x.Fail(kind+".bigwrite/count-vs-moved", "the write reported %d bytes, the peer received %d", gotN, received)
	}
	if got := d.ioc.Dispatched; got != 0 {
		x.Fail("io.Dispatched/not-zero-at-top-level", "after a %d-byte write that parked and was resumed by the poller, with no callback on the stack, IO.Dispatched=%d", size, got)
	}
	if p := d.ioc.Pending(); p != 0 {
		x.Fail("io.Pending/bigwrite/count", "Pending()=%d after the write completed", p)
	}
	x.Outcome(fmt.Sprintf("bigwrite/%s/%v", kind, all))
}

func c01BigWriteDFS(tier string) *engine.DFS {
	return &engine.DFS{Name: "bigwrite@" + tier, Body: c01BigWriteBody, Procs: 8, WorkerProcs: 1, ShardDepth: 2, MaxDeviations: 0, MaxPoints: 20, HangTimeout: 60 * time.Second}
}
