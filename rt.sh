#!/bin/bash
# rt.sh <pkg> [run-regex]  — run repository tests of one package with a hard timeout, skipping the racy TestCodecConnWriteNext
cd /repo && GOFLAGS=-mod=mod GOPROXY=off timeout 300 go test -vet=off -count=1 -timeout 120s -skip 'TestCodecConnWriteNext$' ${2:+-run "$2"} "$1" 2>&1 | grep -v "^=== \|^--- PASS\|^PASS\|^\s*--- PASS" | tail -15
