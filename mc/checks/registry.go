package checks

import "verifmc/engine"

// Check is one registered property check.
type Check struct {
	Run    func(tier string) *engine.Report
	Replay func(v engine.Violation, log func(string)) *engine.Violation
}

var Registry = map[string]Check{}

func register(id string, run func(string) *engine.Report, replay func(engine.Violation, func(string)) *engine.Violation) {
	Registry[id] = Check{Run: run, Replay: replay}
}

func init() {
	register("C01", C01, C01Replay)
	register("C02", C02, C02Replay)
	register("C03", C03, C03Replay)
	register("C04", C04, C04Replay)
	register("C06", C06, C06Replay)
	register("C07", C07, C07Replay)
	register("C08", C08, C08Replay)
	register("C09", C09, C09Replay)
	register("C10", C10, C10Replay)
	register("C11", C11, C11Replay)
	register("C12", C12, C12Replay)
	register("C13", C13, C13Replay)
	register("C14", C14, C14Replay)
	register("C15", C15, C15Replay)
	register("C16", C16, C16Replay)
	register("C17", C17, C17Replay)
	register("C18", C18, C18Replay)
	register("C19", C19, C19Replay)
	register("C20", C20, C20Replay)
}
