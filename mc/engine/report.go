// Package engine holds the exploration engines (E1 stateless DFS over choice points, E2 explicit-state
// BFS, E3 controlled scheduler) and the reporting glue shared by all checks.
package engine

import (
	"bufio"
	"encoding/json"
	"fmt"
	"os"
	"path/filepath"
	"sort"
	"strconv"
	"strings"
	"time"
)

// Root is the directory that holds MANIFEST.json, evidence/, replays/, KNOWN_FINDINGS.txt.
var Root = func() string {
	if r := os.Getenv("VERIF_ROOT"); r != "" {
		return r
	}
	return "/verif"
}()

// Violation is one failing case: a stable signature (used for known-finding matching and
// de-duplication), a human message and the replayable case (choice list or op path).
type Violation struct {
	Sig     string   `json:"sig"`
	Msg     string   `json:"msg"`
	Choices []int    `json:"choices,omitempty"` // E1/E3: choice list
	Path    []string `json:"path,omitempty"`    // E2: op labels from the initial state
	Trace   []string `json:"trace,omitempty"`   // notes of the failing execution
	Config  string   `json:"config,omitempty"`  // sub-configuration (e.g. buffer size) for replay
	Cost    int      `json:"cost"`              // deviations (E1) / depth (E2); smaller = simpler
}

// Report is what a check returns; Finish turns it into evidence + stdout lines + exit code.
type Report struct {
	ID          string
	Tier        string
	Level       string
	Seed        int
	Coverage    map[string]any
	Assumptions []string
	Violations  []Violation
	Start       time.Time
}

func NewReport(id, tier, level string) *Report {
	seed, _ := strconv.Atoi(os.Getenv("VERIF_SEED"))
	return &Report{ID: id, Tier: tier, Level: level, Seed: seed, Coverage: map[string]any{}, Start: time.Now(),
		Assumptions: []string{
			"Linux/epoll build of sonic only (kqueue files are not compiled here)",
			"the Go runtime and the kernel behave as documented; the check observes them, it does not model them",
		}}
}

// Add merges a violation, keeping per signature the cheapest case.
func (r *Report) Add(v Violation) {
	for i := range r.Violations {
		if r.Violations[i].Sig == v.Sig {
			if less(v, r.Violations[i]) {
				r.Violations[i] = v
			}
			return
		}
	}
	r.Violations = append(r.Violations, v)
}

func less(a, b Violation) bool {
	if a.Cost != b.Cost {
		return a.Cost < b.Cost
	}
	la, lb := len(a.Choices)+len(a.Path), len(b.Choices)+len(b.Path)
	if la != lb {
		return la < lb
	}
	return fmt.Sprint(a.Choices, a.Path) < fmt.Sprint(b.Choices, b.Path)
}

type known struct {
	sig, text string
}

// loadKnown reads KNOWN_FINDINGS.txt: lines `known: property=<id> sig=<sig> <text>`; `fixed:` lines
// suppress nothing and are ignored here.
func loadKnown(id string) []known {
	f, err := os.Open(filepath.Join(Root, "KNOWN_FINDINGS.txt"))
	if err != nil {
		return nil
	}
	defer f.Close()
	var out []known
	sc := bufio.NewScanner(f)
	sc.Buffer(make([]byte, 1<<20), 1<<20)
	for sc.Scan() {
		line := strings.TrimSpace(sc.Text())
		if !strings.HasPrefix(line, "known:") {
			continue
		}
		fs := strings.Fields(line)
		if len(fs) < 3 || fs[1] != "property="+id || !strings.HasPrefix(fs[2], "sig=") {
			continue
		}
		out = append(out, known{sig: strings.TrimPrefix(fs[2], "sig="), text: strings.Join(fs[3:], " ")})
	}
	return out
}

// Finish writes evidence/<id>.json and replay files, prints VIOLATION / KNOWN-FINDING lines and
// returns the process exit code.
func (r *Report) Finish() int {
	kn := loadKnown(r.ID)
	seen := map[string]bool{}
	var fresh []Violation
	sort.Slice(r.Violations, func(i, j int) bool { return r.Violations[i].Sig < r.Violations[j].Sig })
	for _, v := range r.Violations {
		matched := false
		for _, k := range kn {
			if k.sig == v.Sig {
				matched = true
				if !seen[k.sig] {
					fmt.Printf("KNOWN-FINDING: property=%s %s\n", r.ID, k.text)
					seen[k.sig] = true
				}
			}
		}
		if !matched {
			fresh = append(fresh, v)
		}
	}
	var stale []string
	for _, k := range kn {
		if !seen[k.sig] {
			stale = append(stale, k.sig)
		}
	}
	dir := filepath.Join(Root, "replays", r.ID)
	if len(fresh) > 0 {
		os.MkdirAll(dir, 0o755)
	}
	for i, v := range fresh {
		p := filepath.Join(dir, fmt.Sprintf("%s-%s-%d.json", r.Tier, time.Now().Format("20060102T150405"), i))
		b, _ := json.MarshalIndent(v, "", " ")
		os.WriteFile(p, b, 0o644)
		fmt.Printf("VIOLATION property=%s replay=%s\n", r.ID, p)
		fmt.Printf("  sig=%s\n  %s\n", v.Sig, v.Msg)
		if len(v.Path) > 0 {
			fmt.Printf("  path: %s\n", strings.Join(v.Path, " ; "))
		}
		for _, t := range v.Trace {
			fmt.Printf("    | %s\n", t)
		}
	}
	known_seen := []string{}
	for s := range seen {
		known_seen = append(known_seen, s)
	}
	sort.Strings(known_seen)
	r.Coverage["known_findings_seen"] = known_seen
	r.Coverage["stale_known"] = stale
	ev := map[string]any{
		"property_id": r.ID,
		"tier":        r.Tier,
		"seed":        r.Seed,
		"level":       r.Level,
		"coverage":    r.Coverage,
		"assumptions": r.Assumptions,
		"wall_s":      time.Since(r.Start).Seconds(),
		"violations":  len(fresh),
	}
	os.MkdirAll(filepath.Join(Root, "evidence"), 0o755)
	b, _ := json.MarshalIndent(ev, "", " ")
	if err := os.WriteFile(filepath.Join(Root, "evidence", r.ID+".json"), b, 0o644); err != nil {
		fmt.Fprintln(os.Stderr, "HARNESS-ERROR: cannot write evidence:", err)
		return 2
	}
	fmt.Printf("%s %s: %s violations=%d known=%d wall=%.1fs\n", r.ID, r.Tier, summary(r.Coverage), len(fresh), len(seen),
		time.Since(r.Start).Seconds())
	if len(fresh) > 0 {
		return 1
	}
	return 0
}

func summary(c map[string]any) string {
	var parts []string
	for _, k := range []string{"states", "transitions", "evaluations", "distinct_nontrivial", "max_depth", "fixpoint",
		"deviation_bound_completed", "exhaustive", "inconclusive", "unstable"} {
		if v, ok := c[k]; ok {
			parts = append(parts, fmt.Sprintf("%s=%v", k, v))
		}
	}
	return strings.Join(parts, " ")
}

// HarnessError aborts the run: something in the harness (not in sonic) is wrong.
func HarnessError(format string, a ...any) {
	fmt.Fprintf(os.Stderr, "HARNESS-ERROR: "+format+"\n", a...)
	os.Exit(2)
}

// MaybeWorker is replaced by the sharding code when a process is started as a worker.
var MaybeWorker = func(id string) bool { return false }
