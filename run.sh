#!/bin/bash
# run.sh <Cxx> quick|thorough          build the harness against /repo's working tree (hooks on) and run one check
# run.sh <Cxx> replay <file>           replay a stored violation
# run.sh build                         build only (used by setup)
set -u
cd "$(dirname "$0")/mc" || exit 2
export GOFLAGS=-mod=mod GOPROXY=off GOCACHE="${GOCACHE:-/verif/.gocache}" VERIF_ROOT="${VERIF_ROOT:-/verif}"
unset GOSUMDB GOTOOLCHAIN
mkdir -p /verif/.bin /verif/.scratch
cp /repo/go.sum go.sum 2>/dev/null
if ! go build -tags verif -o /verif/.bin/verif ./cmd/verif 2>/verif/.scratch/build.log; then
  # a tree that does not compile with the harness cannot be explored; say so loudly (exit 2 = harness error, never a verdict)
  echo "HARNESS-ERROR: build failed:"; cat /verif/.scratch/build.log; exit 2
fi
[ "${1:-}" = build ] && exit 0
exec /verif/.bin/verif "$@"
