package engine

import (
	"fmt"
	"runtime/debug"
	"strings"
)

// E3 — controlled scheduler for real goroutines. Harness threads are goroutines that run one at a time;
// every hooked synchronisation operation calls Point; the choice of who runs next is an explorer choice:
// continuing the running thread is the default (alternative 0), switching away from a thread that could
// continue is a preemption and costs one deviation; when the running thread is blocked or finished the
// choice among the others is free. A thread can block on a predicate (a modelled mutex, a kernel probe such
// as "the epoll descriptor is readable"). No enabled thread while some are unfinished = deadlock.

type sthread struct {
	id       int
	name     string
	resume   chan bool // true = run, false = abort
	enabled  func() bool
	finished bool
	panicked any
	stack    string
	why      string
}

type Sched struct {
	x        *X
	threads  []*sthread
	cur      *sthread
	yield    chan *sthread
	Trace    []string
	steps    int
	MaxSteps int
	aborting bool
}

type abortThread struct{}

func NewSched(x *X) *Sched {
	return &Sched{x: x, yield: make(chan *sthread), MaxSteps: 2000}
}

// Go registers a thread; it starts running when the scheduler first picks it.
func (s *Sched) Go(name string, body func()) {
	t := &sthread{id: len(s.threads), name: name, resume: make(chan bool)}
	s.threads = append(s.threads, t)
	go func() {
		if !<-t.resume {
			t.finished = true
			s.yield <- t
			return
		}
		defer func() {
			if r := recover(); r != nil {
				if _, ok := r.(abortThread); !ok {
					t.panicked = r
					t.stack = string(debug.Stack())
				}
			}
			t.finished = true
			s.yield <- t
		}()
		body()
	}()
}

// Point is a scheduling point of the running thread.
func (s *Sched) Point(kind string) {
	t := s.cur
	if t == nil {
		return
	}
	t.why = kind
	s.yield <- t
	if !<-t.resume {
		panic(abortThread{})
	}
}

// Block makes the running thread unschedulable until enabled() holds (probed by the scheduler).
func (s *Sched) Block(enabled func() bool, why string) {
	t := s.cur
	if t == nil {
		return
	}
	t.enabled = enabled
	t.why = "blocked: " + why
	s.yield <- t
	if !<-t.resume {
		panic(abortThread{})
	}
	t.enabled = nil
}

func (t *sthread) runnable() bool {
	return !t.finished && (t.enabled == nil || t.enabled())
}

// Run schedules until every thread finished. It returns "" or a description of a deadlock.
func (s *Sched) Run() (deadlock string) {
	var running *sthread // the thread that ran last
	for {
		var en []*sthread
		if running != nil && running.runnable() {
			en = append(en, running)
		}
		for _, t := range s.threads {
			if t != running && t.runnable() {
				en = append(en, t)
			}
		}
		if len(en) == 0 {
			all := true
			var stuck []string
			for _, t := range s.threads {
				if !t.finished {
					all = false
					stuck = append(stuck, t.name+" ("+t.why+")")
				}
			}
			if all {
				return ""
			}
			s.abort()
			return "no thread can run: " + strings.Join(stuck, ", ")
		}
		s.steps++
		if s.steps > s.MaxSteps {
			s.abort()
			s.x.Inconclusive("schedule horizon reached")
		}
		k := 0
		if len(en) > 1 {
			if running != nil && en[0] == running {
				k = s.x.Deviate(len(en), "preempt")
			} else {
				k = s.x.Pick(len(en), "next thread")
			}
		}
		t := en[k]
		if t != running {
			s.Trace = append(s.Trace, fmt.Sprintf("-> %s", t.name))
		}
		running = t
		s.cur = t
		t.resume <- true
		y := <-s.yield
		s.cur = nil
		if y != t {
			HarnessError("scheduler: thread %s yielded while %s was running", y.name, t.name)
		}
		if t.why != "" && !t.finished {
			s.Trace = append(s.Trace, fmt.Sprintf("   %s: %s", t.name, t.why))
		}
		if t.panicked != nil {
			s.abort()
			return ""
		}
	}
}

// Panicked reports a panic raised by a thread body.
func (s *Sched) Panicked() (string, any, string) {
	for _, t := range s.threads {
		if t.panicked != nil {
			return t.name, t.panicked, t.stack
		}
	}
	return "", nil, ""
}

// abort unwinds every unfinished thread.
func (s *Sched) abort() {
	for _, t := range s.threads {
		if !t.finished {
			s.cur = t
			t.resume <- false
			<-s.yield
			s.cur = nil
		}
	}
}

// CurrentName / CurrentID identify the thread that is running right now.
func (s *Sched) CurrentName() string {
	if s.cur == nil {
		return ""
	}
	return s.cur.name
}

func (s *Sched) CurrentID() int {
	if s.cur == nil {
		return -1
	}
	return s.cur.id
}
