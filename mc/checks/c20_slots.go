package checks

// C20 — out-of-order slot retrieval addresses exactly the bytes saved.
//
// Engine E2 over a real ByteBuffer + a real SlotSequencer(maxSlots,maxBytes) (configuration "seq") and
// over a real ByteBuffer + bare SlotOffsetter(maxBytes) (configuration "off"). The reference model is
// the list of parked packets in save order. Key = model list + the complete concrete state of the
// sequencer/offsetter (Fenwick array, slot list, counters) dumped by reflection, so states are merged
// only when they are identical; the BFS runs to a fixpoint and therefore covers draining and
// never-draining histories of any length, including the index-exhaustion path of the offsetter.

import (
	"fmt"
	"reflect"
	"strings"

	"github.com/talostrading/sonic"
	"verifmc/engine"
)

type parked struct {
	seq   int
	bytes []byte
	slot  sonic.Slot // offsetter configuration only: the slot returned by Add
}

type slotState struct {
	announce int // bytes by which every Save over-announces (0 in all but one configuration)
	b        *sonic.ByteBuffer
	seq      *sonic.SlotSequencer
	off      *sonic.SlotOffsetter
	parked   []parked // save order
	next     byte
	ahead    []byte // a packet that arrived in the same read as an earlier one: written into the buffer, not yet committed
	maxSlots int
	maxBytes int
}

func (s *slotState) fresh(k int) []byte {
	out := make([]byte, k)
	for i := range out {
		s.next++
		if s.next == 0 {
			s.next = 1
		}
		out[i] = s.next
	}
	return out
}

func (s *slotState) bytesParked() int {
	n := 0
	for _, p := range s.parked {
		n += len(p.bytes)
	}
	return n
}

func (s *slotState) key() string {
	var sb strings.Builder
	for _, p := range s.parked {
		fmt.Fprintf(&sb, "%d:%d,", p.seq, len(p.bytes))
	}
	fmt.Fprintf(&sb, "|ahead%d|", len(s.ahead))
	if s.seq != nil {
		sb.WriteString(engine.Dump(s.seq, true))
	} else {
		sb.WriteString(engine.Dump(s.off, true))
		for _, p := range s.parked {
			fmt.Fprintf(&sb, "%d+%d,", p.slot.Index, p.slot.Length)
		}
	}
	return sb.String()
}

func slotViol(sig, format string, a ...any) *engine.Violation {
	return &engine.Violation{Sig: sig, Msg: fmt.Sprintf(format, a...)}
}

// bbWritten reads the buffer's written-but-uncommitted bytes (there is no accessor for them) by reflection.
func bbWritten(b *sonic.ByteBuffer) []byte {
	v := reflect.ValueOf(b).Elem()
	ri, wi := int(v.FieldByName("ri").Int()), int(v.FieldByName("wi").Int())
	data := v.FieldByName("data").Bytes()
	if ri < 0 || wi > len(data) || ri > wi {
		return nil
	}
	return data[ri:wi]
}

func (s *slotState) inv() *engine.Violation {
	// the packet waiting uncommitted behind the save area must survive every discard in front of it (states are
	// merged by structure, not by buffer content, so this is judged on every transition, here)
	if s.ahead != nil {
		if got := bbWritten(s.b); string(got) != string(s.ahead) {
			return slotViol("slots/uncommitted-packet-disturbed", "a packet of %d bytes %v arrived together with an earlier one and waits uncommitted in the buffer; after this operation the buffer holds %v in its place (%s)", len(s.ahead), s.ahead, got, s.describe())
		}
	}
	var want []byte
	for _, p := range s.parked {
		want = append(want, p.bytes...)
	}
	if string(s.b.Saved()) != string(want) {
		return slotViol("slots/saved-area", "Saved()=%v, parked packets in save order are %v (%s)", s.b.Saved(), want, s.describe())
	}
	if s.seq != nil {
		if s.seq.Bytes() != len(want) {
			return slotViol("slots/bytes-count", "Bytes()=%d, parked total is %d (%s)", s.seq.Bytes(), len(want), s.describe())
		}
		if s.seq.Size() != len(s.parked) {
			return slotViol("slots/size-count", "Size()=%d, %d packets are parked (%s)", s.seq.Size(), len(s.parked), s.describe())
		}
	}
	return nil
}

func (s *slotState) describe() string {
	var sb strings.Builder
	for _, p := range s.parked {
		fmt.Fprintf(&sb, "seq%d=%v ", p.seq, p.bytes)
	}
	return sb.String()
}

// park writes, commits and saves a fresh packet; returns its bytes and raw slot. If a packet was written ahead (it
// arrived together with an earlier one and has been sitting uncommitted in the write area while slots were popped
// and discarded in front of it), that packet is the one parked now.
func (s *slotState) park(n int) ([]byte, sonic.Slot) {
	if s.ahead != nil {
		t := s.ahead
		s.ahead = nil
		s.b.Commit(len(t))
		return t, s.b.Save(len(t) + s.announce)
	}
	t := s.fresh(n)
	s.b.Write(t)
	s.b.Commit(n)
	// (announce > 0: the caller parks a packet by the length its header announces although fewer bytes arrived — a
	// truncated datagram; Save clamps to what is there, and everything downstream must see the clamped slot)
	return t, s.b.Save(n + s.announce)
}

// writeAhead puts a packet into the buffer's write area without committing it.
func (s *slotState) writeAhead(n int) {
	s.ahead = s.fresh(n)
	s.b.Write(s.ahead)
}

func (s *slotState) push(seq, n int) *engine.Violation {
	if s.ahead != nil {
		n = len(s.ahead)
	}
	t, raw := s.park(n)
	if raw.Length != n {
		return slotViol("slots.Save/length", "Save(%d) with %d bytes readable returned a slot of length %d", n+s.announce, n, raw.Length)
	}
	ok, err := s.seq.Push(seq, raw)
	dup := false
	for _, p := range s.parked {
		if p.seq == seq {
			dup = true
		}
	}
	over := len(s.parked) >= s.maxSlots || s.bytesParked()+n > s.maxBytes
	if ok && err == nil {
		if dup {
			return slotViol("slots.Push/duplicate-accepted", "Push(seq=%d) accepted although seq %d is parked (%s)", seq, seq, s.describe())
		}
		if over {
			return slotViol("slots.Push/over-capacity-accepted", "Push(seq=%d,len=%d) accepted beyond capacity: %d slots of %d, %d bytes of %d", seq, n, len(s.parked), s.maxSlots, s.bytesParked(), s.maxBytes)
		}
		s.parked = append(s.parked, parked{seq: seq, bytes: t})
		return nil
	}
	if ok && err != nil {
		return slotViol("slots.Push/ok-with-error", "Push(seq=%d) = (true, %v)", seq, err)
	}
	// refused: legitimate for a duplicate (with or without error) or with an error (a capacity limit,
	// which includes the offsetter's index space). A silent refusal of a fresh number is not.
	if !dup && err == nil {
		return slotViol("slots.Push/silently-refused", "Push(seq=%d,len=%d) = (false, nil) although seq is not parked (%s)", seq, n, s.describe())
	}
	// the caller gets rid of the packet it could not park: it is the last one in the save area
	s.b.Discard(raw)
	return nil
}

func (s *slotState) pop(seq int) *engine.Violation {
	ix := -1
	for i, p := range s.parked {
		if p.seq == seq {
			ix = i
		}
	}
	slot, ok := s.seq.Pop(seq)
	if ix < 0 {
		if ok {
			return slotViol("slots.Pop/unknown-seq-found", "Pop(%d) = (%+v,true) but seq %d is not parked (%s)", seq, slot, seq, s.describe())
		}
		return nil
	}
	if !ok {
		return slotViol("slots.Pop/parked-seq-not-found", "Pop(%d) = false although parked (%s)", seq, s.describe())
	}
	if v := s.checkAndDiscard(slot, ix, fmt.Sprintf("Pop(%d)", seq)); v != nil {
		return v
	}
	return nil
}

func (s *slotState) checkAndDiscard(slot sonic.Slot, ix int, what string) *engine.Violation {
	want := s.parked[ix].bytes
	if slot.Index < 0 || slot.Length < 0 || slot.Index+slot.Length > s.b.SaveLen() {
		return slotViol("slots/slot-outside-save-area", "%s returned %+v, save area has %d bytes (%s)", what, slot, s.b.SaveLen(), s.describe())
	}
	if got := s.b.SavedSlot(slot); string(got) != string(want) {
		return slotViol("slots/slot-addresses-wrong-bytes", "%s returned %+v which addresses %v; the bytes saved under it are %v (%s)", what, slot, got, want, s.describe())
	}
	s.b.Discard(slot)
	s.parked = append(s.parked[:ix:ix], s.parked[ix+1:]...)
	return nil
}

func seqSpec(maxSlots, maxBytes, maxSeq, maxLen int, ahead ...bool) *engine.BFS[*slotState] {
	withAhead := len(ahead) == 0 || ahead[0]
	minLen := 1
	if len(ahead) > 1 && ahead[1] {
		minLen = 0 // an empty packet (length 0) is a packet too: it occupies a slot and no bytes
	}
	announce := 0
	if len(ahead) > 2 && ahead[2] {
		announce = 2
	}
	type od struct {
		kind   byte
		seq, n int
	}
	var ops []string
	var ods []od
	for seq := 0; seq <= maxSeq; seq++ {
		for n := minLen; n <= maxLen; n++ {
			ops = append(ops, fmt.Sprintf("push(seq=%d,len=%d)", seq, n))
			ods = append(ods, od{'p', seq, n})
		}
	}
	for seq := 0; seq <= maxSeq; seq++ {
		ops = append(ops, fmt.Sprintf("pop(seq=%d)", seq))
		ods = append(ods, od{'o', seq, 0})
	}
	for n := 1; n <= maxLen && withAhead; n++ {
		ops = append(ops, fmt.Sprintf("write-ahead(len=%d)", n))
		ods = append(ods, od{'w', 0, n})
	}
	ops = append(ops, "reset")
	ods = append(ods, od{'r', 0, 0})
	return &engine.BFS[*slotState]{
		Name: fmt.Sprintf("seq,maxSlots=%d,maxBytes=%d,maxSeq=%d,maxLen=%d,ahead=%v,minLen=%d,announce=%d", maxSlots, maxBytes, maxSeq, maxLen, withAhead, minLen, announce),
		New: func() *slotState {
			return &slotState{b: sonic.NewByteBuffer(), seq: sonic.NewSlotSequencer(maxSlots, maxBytes), maxSlots: maxSlots, maxBytes: maxBytes, announce: announce}
		},
		Ops: ops,
		Apply: func(s *slotState, op int) (bool, *engine.Violation) {
			d := ods[op]
			switch d.kind {
			case 'p':
				return true, s.push(d.seq, d.n)
			case 'o':
				return true, s.pop(d.seq)
			case 'w':
				if s.ahead != nil {
					return false, nil
				}
				s.writeAhead(d.n)
				return true, nil
			}
			s.seq.Reset()
			s.b.DiscardAll()
			s.parked = nil
			return true, nil
		},
		Key: func(s *slotState) string { return s.key() },
		Inv: func(s *slotState) *engine.Violation { return s.inv() },
	}
}

// offSpec drives the bare SlotOffsetter the way its doc comment prescribes: slot = Save; slot = Add(slot);
// ...; Discard(Offset(slot)).
func offSpec(maxBytes, maxLen, maxParked int) *engine.BFS[*slotState] {
	var ops []string
	for n := 1; n <= maxLen; n++ {
		ops = append(ops, fmt.Sprintf("add(len=%d)", n))
	}
	for i := 0; i < maxParked; i++ {
		ops = append(ops, fmt.Sprintf("discard(parked#%d)", i))
	}
	ops = append(ops, "reset-when-empty")
	return &engine.BFS[*slotState]{
		Name: fmt.Sprintf("off,maxBytes=%d,maxLen=%d,maxParked=%d", maxBytes, maxLen, maxParked),
		New: func() *slotState {
			return &slotState{b: sonic.NewByteBuffer(), off: sonic.NewSlotOffsetter(maxBytes), maxBytes: maxBytes}
		},
		Ops: ops,
		Apply: func(s *slotState, op int) (bool, *engine.Violation) {
			switch {
			case op < maxLen:
				if len(s.parked) >= maxParked {
					return false, nil
				}
				n := op + 1
				t, raw := s.park(n)
				slot, err := s.off.Add(raw)
				if err != nil {
					s.b.Discard(raw)
					return true, nil
				}
				if slot.Length != n {
					return true, slotViol("offsetter.Add/length", "Add(%+v) = %+v", raw, slot)
				}
				s.parked = append(s.parked, parked{bytes: t, slot: slot})
				return true, nil
			case op < maxLen+maxParked:
				i := op - maxLen
				if i >= len(s.parked) {
					return false, nil
				}
				slot := s.off.Offset(s.parked[i].slot)
				return true, s.checkAndDiscard(slot, i, fmt.Sprintf("Offset(%+v)", s.parked[i].slot))
			default:
				if len(s.parked) != 0 {
					return false, nil
				}
				s.off.Reset()
				return true, nil
			}
		},
		Key: func(s *slotState) string { return s.key() },
		Inv: func(s *slotState) *engine.Violation { return s.inv() },
	}
}

func c20Specs(tier string) []*engine.BFS[*slotState] {
	if tier == "thorough" {
		// (2,16,3,4) does not reach its fixpoint within millions of states; (2,12,3,3) and (3,9,3,4) do, and keep
		// the shape "byte capacity far above what the slots can hold at once"
		// (the written-ahead packet multiplies the states: it is explored with two of the four sequencers)
		return []*engine.BFS[*slotState]{seqSpec(3, 6, 4, 3), seqSpec(4, 8, 5, 3, false), seqSpec(2, 12, 3, 3), seqSpec(3, 9, 3, 4, false), seqSpec(3, 5, 3, 2, false, true, true), seqSpec(3, 6, 3, 3, true, false, true), offSpec(6, 3, 4), offSpec(10, 3, 5),
			// the largest one last: if the wall-clock cap cuts anything, it is this one (reported as not exhaustive)
			seqSpec(3, 6, 4, 3, true, true)}
	}
	return []*engine.BFS[*slotState]{seqSpec(3, 6, 4, 3), seqSpec(2, 10, 3, 4, false), seqSpec(3, 5, 3, 2, false, true, true), offSpec(6, 3, 3)}
}

func C20(tier string) *engine.Report {
	rep := engine.NewReport("C20", tier, "model_checking")
	var tot engine.BFSTotals
	deadline := engine.Cap(tier) // one wall-clock budget for the whole check
	for _, sp := range c20Specs(tier) {
		sp.Until = deadline
		r := sp.Run()
		if !r.Fixpoint {
			r.Capped = true // this search is meant to reach a fixpoint; anything less is reported as not exhaustive
		}
		tot.Add(sp.Name, r, rep)
	}
	tot.Fill(rep, "reachable states of a real ByteBuffer + SlotSequencer (push any seq/len incl. duplicates and over capacity, pop any seq, reset) and of a ByteBuffer + bare SlotOffsetter, "+
		"BFS to fixpoint; state = model list of parked packets + complete concrete sequencer/offsetter state by reflection; every pop compares SavedSlot(slot) with the bytes saved under that number, "+
		"then Discards and compares the whole save area")
	return rep
}

func C20Replay(v engine.Violation, log func(string)) *engine.Violation {
	for _, sp := range append(c20Specs("thorough"), c20Specs("quick")...) {
		if sp.Name == v.Config {
			return sp.Replay(v.Path, log)
		}
	}
	engine.HarnessError("unknown config %q", v.Config)
	return nil
}
