// c05race: free-running companion of the C05 check, built with -race. The cooperative scheduler's hand-offs
// are happens-before edges that blind the race detector, so unsynchronised accesses are looked for here:
// the same thread bodies (a loop that polls, arms and cancels a FIFO read; two posters; a nested post) run
// freely on real threads. A report of the race detector makes the process exit with status 66.
package main

import (
	"fmt"
	"os"
	"sync"
	"sync/atomic"
	"syscall"
	"time"

	"github.com/talostrading/sonic"
)

func main() {
	rounds := 30
	if len(os.Args) > 1 {
		fmt.Sscan(os.Args[1], &rounds)
	}
	for r := 0; r < rounds; r++ {
		ioc := sonic.MustIO()
		var p [2]int
		syscall.Pipe2(p[:], syscall.O_NONBLOCK)
		f, err := sonic.Open(ioc, fmt.Sprintf("/proc/self/fd/%d", p[0]), syscall.O_RDONLY|syscall.O_NONBLOCK, 0)
		if err != nil {
			panic(err)
		}
		var ran int64
		const perPoster = 50
		var wg sync.WaitGroup
		for k := 0; k < 2; k++ {
			wg.Add(1)
			go func() {
				defer wg.Done()
				for i := 0; i < perPoster; i++ {
					ioc.Post(func() {
						atomic.AddInt64(&ran, 1)
						if atomic.LoadInt64(&ran)%10 == 0 {
							ioc.Post(func() { atomic.AddInt64(&ran, 1) })
						}
					})
					_ = ioc.Posted()
				}
			}()
		}
		buf := make([]byte, 8)
		deadline := time.Now().Add(10 * time.Second)
		postersDone := make(chan struct{})
		go func() { wg.Wait(); close(postersDone) }()
		done := false
		for !done && time.Now().Before(deadline) {
			f.AsyncRead(buf, func(error, int) {})
			ioc.RunOneFor(time.Millisecond)
			f.Cancel()
			_ = ioc.Pending()
			select {
			case <-postersDone:
				if ioc.Posted() == 0 {
					done = true
				}
			default:
			}
		}
		for i := 0; i < 5; i++ {
			ioc.PollOne()
		}
		if !done {
			fmt.Println("C05RACE: handlers did not all run in time")
			os.Exit(3)
		}
		f.Close()
		syscall.Close(p[1])
		ioc.Close()
	}
	fmt.Println("C05RACE: ok")
}
