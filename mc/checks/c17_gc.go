package checks

// C17, family "unreferenced": a read and a write in flight together each complete exactly once — also when the
// program keeps no reference to the Stream. The stream (real AsyncAdapter over a socketpair, raw short-writing
// transport with a minimal send buffer) is built in a non-inlined function that starts AsyncNextFrame /
// AsyncNextMessage and a 48 KB AsyncWrite (which parks: the peer is not reading) and returns only the peer's
// descriptor, two counters and, per operation, a weak pointer to a sentinel that only that operation's callback
// captures. Then: {the read completes first | the write completes first | neither} x the read re-arms itself from its
// callback or not x 4 x runtime.GC() at that point or not. Oracle: the sentinel of every operation still in flight is
// reachable (if not, the stream was collected with an operation in flight and polling on would touch freed memory: the
// execution stops there); afterwards the peer acts and every callback has run exactly once, the write successfully,
// and the peer has received exactly one well-formed masked frame with the payload.

import (
	"fmt"
	"net"
	"os"
	"runtime"
	"syscall"
	"time"
	"weak"

	"github.com/talostrading/sonic"
	"github.com/talostrading/sonic/codec/websocket"
	"verifmc/engine"
	"verifmc/kern"
	"verifmc/wsref"
)

type c17GCObj struct {
	fd           int
	peer         int
	rdone, wdone *int
	rerr, werr   *error
	wr, ww       weak.Pointer[gcSentinel]
	cleanup      func()
	payload      []byte
}

//go:noinline
func c17GCBuild(x *engine.X, ioc *sonic.IO, msgAPI, rearm, writeFirst bool) *c17GCObj {
	g := &c17GCObj{rdone: new(int), wdone: new(int), rerr: new(error), werr: new(error)}
	a, b, _ := kern.SocketPair()
	f := os.NewFile(uintptr(a), "sp")
	c, err := net.FileConn(f)
	f.Close()
	if err != nil {
		engine.HarnessError("FileConn: %v", err)
	}
	g.peer = b
	raw := &c17Raw{fd: -1}
	defer func() { g.fd = raw.fd }()
	sc, _ := c.(syscall.Conn).SyscallConn()
	sc.Control(func(fd uintptr) {
		raw.fd = int(fd)
		syscall.SetsockoptInt(int(fd), syscall.SOL_SOCKET, syscall.SO_SNDBUF, 1)
	})
	var ad *sonic.AsyncAdapter
	sonic.NewAsyncAdapter(ioc, c.(syscall.Conn), raw, func(err error, a *sonic.AsyncAdapter) { ad = a })
	ws, _ := websocket.NewWebsocketStream(ioc, nil, websocket.RoleClient)
	if err := ws.VerifAttach(ad); err != nil {
		engine.HarnessError("VerifAttach: %v", err)
	}
	// the net.Conn owns the descriptor and has a finalizer of its own: the harness keeps it and closes it itself
	g.cleanup = func() { c.Close(); syscall.Close(b) }
	rs, wsn := &gcSentinel{}, &gcSentinel{}
	g.wr, g.ww = weak.Make(rs), weak.Make(wsn)
	rdone, wdone, rerr, werr := g.rdone, g.wdone, g.rerr, g.werr
	buf := make([]byte, 256)
	var startRead func()
	onRead := func(err error) {
		rs.hits[0]++
		*rdone++
		*rerr = err
		if rearm && *rdone == 1 && err == nil {
			startRead()
		}
	}
	startRead = func() {
		if msgAPI {
			ws.AsyncNextMessage(buf, func(err error, n int, mt websocket.MessageType) { onRead(err) })
		} else {
			ws.AsyncNextFrame(func(err error, f websocket.Frame) { onRead(err) })
		}
	}
	g.payload = payloadBytes(5, 48<<10)
	startWrite := func() {
		ws.AsyncWrite(g.payload, websocket.TypeBinary, func(err error) { wsn.hits[0]++; *wdone++; *werr = err })
	}
	if writeFirst {
		startWrite()
		startRead()
	} else {
		startRead()
		startWrite()
	}
	return g
}

func c17GCBody(x *engine.X) {
	msgAPI := x.Pick(2, "AsyncNextFrame | AsyncNextMessage") == 1
	writeFirst := x.Pick(2, "started first: the read | the write") == 1
	rearm := x.Pick(2, "the read callback starts the next read") == 1
	// (a read started while a write is blocked waits for that write — every read first flushes what is queued — so "the
	// read completes first" exists only when the read was started first)
	order := 1 + x.Pick(2, "completes first: the write | neither (both still in flight at the collection)")
	if !writeFirst && x.Pick(2, "... or the read") == 1 {
		order = 0
	}
	gc := x.Pick(2, "4 x runtime.GC() at that point") == 1
	ioc, err := sonic.NewIO()
	if err != nil {
		engine.HarnessError("NewIO: %v", err)
	}
	g := c17GCBuild(x, ioc, msgAPI, rearm, writeFirst)
	x.Defer(func() { g.cleanup(); ioc.Close() })
	syscall.SetNonblock(g.peer, true)
	x.Note("unreferenced stream: msgAPI=%v writeFirst=%v rearm=%v order=%d gc=%v", msgAPI, writeFirst, rearm, order, gc)
	x.Nontrivial()
	// the write takes what the send buffer holds and parks for good: from here on only the peer can unblock it
	for i := 0; i < 50 && kern.WouldNotBlockWrite(g.fd); i++ {
		ioc.PollOne()
	}
	if *g.wdone != 0 || kern.WouldNotBlockWrite(g.fd) {
		x.Inconclusive("the 48 KB write did not park on a full send buffer")
	}
	var out []byte
	rb := make([]byte, 1<<16)
	drain := func() {
		for {
			n, err := syscall.Read(g.peer, rb)
			if n <= 0 || err != nil {
				return
			}
			out = append(out, rb[:n]...)
		}
	}
	pollUntil := func(cond func() bool, peerReads bool) {
		dl := time.Now().Add(10 * time.Second)
		for !cond() && time.Now().Before(dl) {
			if peerReads {
				drain()
			}
			ioc.PollOne()
		}
	}
	sent := 0
	peerSend := func() {
		sent++
		b := wsref.Frame{Fin: true, Op: wsref.OpText, Payload: []byte(fmt.Sprintf("m%d", sent))}.Encode()
		if _, err := syscall.Write(g.peer, b); err != nil {
			engine.HarnessError("peer write: %v", err)
		}
	}
	wantReads := 1
	if rearm {
		wantReads = 2
	}
	collect := func(stage string) {
		if !gc {
			return
		}
		// (a Stream owns a sync.Pool, which the runtime's pool registry keeps reachable for two collections)
		for i := 0; i < 4; i++ {
			runtime.GC()
		}
		if *g.wdone == 0 && g.ww.Value() == nil {
			x.Fail("ws/gc/write-owner-collected", "%s, the program holds no reference to the stream and the collector ran: the write in flight (its callback has not run) is no longer reachable — the stream was collected with an operation in flight", stage)
		}
		if *g.rdone < wantReads && g.wr.Value() == nil {
			x.Fail("ws/gc/read-owner-collected", "%s, the program holds no reference to the stream and the collector ran: the read in flight is no longer reachable", stage)
		}
	}
	switch order {
	case 0:
		peerSend()
		pollUntil(func() bool { return *g.rdone >= 1 }, false)
		if *g.rdone < 1 {
			x.Fail("ws/gc/read-not-completed", "the peer sent a frame; the read in flight did not complete within 10 s of polling")
		}
		collect("after the read completed while the write is still blocked")
	case 1:
		pollUntil(func() bool { return *g.wdone >= 1 }, true)
		if *g.wdone < 1 {
			x.Fail("ws/gc/write-not-completed", "the peer drained; the blocked write did not complete within 10 s of polling (peer received %d bytes)", len(out))
		}
		collect("after the write completed while the read is still waiting")
	default:
		collect("with the read and the write both in flight")
	}
	// now everything completes
	for *g.rdone < wantReads && sent < wantReads {
		if sent <= *g.rdone {
			peerSend()
		}
		before := *g.rdone
		pollUntil(func() bool { return *g.rdone > before }, true)
		if *g.rdone == before {
			break
		}
	}
	pollUntil(func() bool { return *g.wdone >= 1 && *g.rdone >= wantReads }, true)
	drain()
	if *g.wdone != 1 || *g.werr != nil {
		x.Fail("ws/write-callback-lost-or-twice", "the 48 KB AsyncWrite of an unreferenced stream: callback ran %d times, err=%v (the peer received %d bytes)", *g.wdone, *g.werr, len(out))
	}
	if *g.rdone != wantReads || *g.rerr != nil {
		x.Fail("ws/read-callback-lost-or-twice", "the reads of an unreferenced stream: %d callbacks, expected %d, last err=%v", *g.rdone, wantReads, *g.rerr)
	}
	frames, rest, _ := wsref.ParseAll(out, 1<<20)
	if len(frames) != 1 || len(rest) != 0 || !frames[0].Masked || frames[0].Op != wsref.OpBinary || string(frames[0].Payload) != string(g.payload) {
		x.Fail("ws/app-frames-on-wire", "the peer received %d frames + %d stray bytes for one 48 KB message", len(frames), len(rest))
	}
	x.Outcome(fmt.Sprintf("gc/%d/%v/%v", order, gc, rearm))
}

func c17GCDFS(tier string) *engine.DFS {
	return &engine.DFS{Name: "unreferenced@" + tier, Body: c17GCBody, Procs: 8, WorkerProcs: 1, GCEvery: 10, ShardDepth: 2, MaxDeviations: 0, MaxPoints: 30, HangTimeout: 60 * time.Second}
}
