package checks

// C02, family "buffers": the same byte-fidelity promise when the transfer is driven through a ByteBuffer — the path
// CodecConn and the websocket stream use: ByteBuffer.WriteTo / AsyncWriteTo towards, and ReadFrom / AsyncReadFrom from,
// a real connection. A payload several times the socket's send buffer (TCP with SO_SNDBUF 4096; a FIFO of one page) is
// pushed with repeated WriteTo calls (each moves what fits, then reports would-block with the count it moved) while the
// peer drains at once or 8 KiB per step. Oracle: every call's count equals the drop of ReadLen(); the counts add up to
// the payload; the peer receives exactly the payload, once, in order.

import (
	"errors"
	"fmt"
	"syscall"
	"time"

	"github.com/talostrading/sonic"
	"github.com/talostrading/sonic/sonicerrors"
	"verifmc/engine"
	"verifmc/kern"
)

func c02BuffersBody(x *engine.X) {
	kind := []string{"tcp", "fifo"}[x.Pick(2, "transport")]
	async := x.Pick(2, "WriteTo | AsyncWriteTo") == 1
	stepwise := x.Pick(2, "the peer drains: everything at once | 8 KiB per step") == 1
	size := []int{100000, 1 << 20}[x.Pick(2, "payload size")]
	ioc, err := sonic.NewIO()
	if err != nil {
		engine.HarnessError("NewIO: %v", err)
	}
	var w sonic.FileDescriptor
	var peer int
	if kind == "tcp" {
		lfd, addr, port, err := kern.TCPListener()
		if err != nil {
			engine.HarnessError("%v", err)
		}
		c, err := sonic.Dial(ioc, "tcp", kern.AddrString(addr, port))
		if err != nil {
			x.Inconclusive("dial: " + err.Error())
		}
		p, _ := kern.AcceptRaw(lfd, settleGuard)
		syscall.Close(lfd)
		syscall.SetsockoptInt(c.RawFd(), syscall.SOL_SOCKET, syscall.SO_SNDBUF, 4096)
		w, peer = c, p
		x.Defer(func() {
			syscall.SetsockoptLinger(c.RawFd(), syscall.SOL_SOCKET, syscall.SO_LINGER, &syscall.Linger{Onoff: 1})
			c.Close()
			kern.Abort(p)
			ioc.Close()
		})
	} else {
		r, wfd, _ := kern.Pipe(4096)
		f, err := sonic.Open(ioc, fmt.Sprintf("/proc/self/fd/%d", wfd), syscall.O_WRONLY|syscall.O_NONBLOCK, 0)
		syscall.Close(wfd)
		if err != nil {
			engine.HarnessError("Open: %v", err)
		}
		w, peer = f, r
		x.Defer(func() { f.Close(); syscall.Close(r); ioc.Close() })
	}
	syscall.SetNonblock(peer, true)
	payload := make([]byte, size)
	for i := range payload {
		payload[i] = byte(i*11 + i>>10)
	}
	bb := sonic.NewByteBuffer()
	bb.Write(payload)
	bb.Commit(size)
	// bytes that were put into the buffer but are not committed yet (the next item, still being assembled) are not
	// part of what WriteTo sends
	tail := x.Pick(2, "uncommitted bytes behind the payload: none | 7") == 1
	if tail {
		bb.Write([]byte("PENDING"))
	}
	x.Note("%s %d bytes async=%v stepwise=%v", kind, size, async, stepwise)
	x.Nontrivial()
	var got []byte
	rb := make([]byte, 8<<10)
	drain := func() {
		for {
			n, err := syscall.Read(peer, rb)
			if n <= 0 || err != nil {
				return
			}
			got = append(got, rb[:n]...)
			if stepwise {
				return
			}
		}
	}
	reported := 0
	deadline := time.Now().Add(30 * time.Second)
	for bb.ReadLen() > 0 && time.Now().Before(deadline) {
		before := bb.ReadLen()
		if async {
			calls := 0
			var cerr error
			cn := 0
			bb.AsyncWriteTo(w, func(err error, n int) { calls++; cerr, cn = err, n })
			for calls == 0 && time.Now().Before(deadline) {
				drain()
				ioc.PollOne()
			}
			if calls != 1 {
				x.Fail("buffer.AsyncWriteTo/callback-count", "callback ran %d times", calls)
			}
			if cerr != nil {
				x.Fail("buffer.AsyncWriteTo/error", "AsyncWriteTo towards a draining peer: %v after %d bytes", cerr, cn)
			}
			if drop := before - bb.ReadLen(); drop != cn {
				x.Fail("buffer.WriteTo/count-vs-consumed", "AsyncWriteTo reported %d bytes, ReadLen() dropped by %d", cn, drop)
			}
			reported += cn
			continue
		}
		n, err := bb.WriteTo(w)
		if err != nil && !errors.Is(err, sonicerrors.ErrWouldBlock) {
			x.Fail("buffer.WriteTo/error", "WriteTo towards a draining peer: %v after %d bytes", err, n)
		}
		if drop := before - bb.ReadLen(); int64(drop) != n {
			x.Fail("buffer.WriteTo/count-vs-consumed", "WriteTo returned (%d, %v), ReadLen() dropped by %d: what was reported as written %s", n, err, drop, map[bool]string{true: "stays in the buffer and is sent again", false: "differs from what left the buffer"}[int64(drop) < n])
		}
		reported += int(n)
		drain()
	}
	for i := 0; i < 400 && len(got) < reported; i++ {
		drain()
		if len(got) < reported {
			kern.AwaitReadReady(peer, 5*time.Millisecond)
		}
	}
	drain()
	if bb.ReadLen() != 0 {
		x.Inconclusive("the payload did not drain within 30 s")
	}
	if tail && bb.WriteLen() != 7 {
		x.Fail("buffer.WriteTo/uncommitted-bytes-touched", "7 uncommitted bytes sat behind the payload; after it was written WriteLen()=%d", bb.WriteLen())
	}
	if reported != size {
		x.Fail("buffer.WriteTo/count", "the calls reported %d bytes in total for a payload of %d", reported, size)
	}
	if len(got) != size || string(got) != string(payload) {
		at := 0
		for at < len(got) && at < size && got[at] == payload[at] {
			at++
		}
		x.Fail("buffer.WriteTo/peer-bytes", "a %d-byte payload pushed with repeated WriteTo calls: the peer received %d bytes, first difference at offset %d", size, len(got), at)
	}
	x.Outcome(fmt.Sprintf("buffers/%s/%v/%v", kind, async, stepwise))
}

func c02BuffersDFS(tier string) *engine.DFS {
	return &engine.DFS{Name: "buffers@" + tier, Body: c02BuffersBody, Procs: 8, WorkerProcs: 1, ShardDepth: 2, MaxDeviations: 0, MaxPoints: 20, HangTimeout: 90 * time.Second}
}
