#!/bin/bash
# Runs the repository's own test suite with the verif guard OFF and compares with BASELINE.json's stable_pass list.
# The root package's TestCodecConnWriteNext has a race of its own (its server goroutine can take back the "connected"
# token it has just put in a one-slot channel) and then hangs until the test timeout; it is run separately and retried.
cd /repo || exit 2
export GOFLAGS=-mod=mod GOPROXY=off
unset GOSUMDB GOTOOLCHAIN
mkdir -p /verif/.scratch
out=$(mktemp /verif/.scratch/baseline.XXXXXX.json)
timeout 1500 go test -json -vet=off -count=1 -timeout 10m -skip 'TestCodecConnWriteNext$' ./... > "$out" 2>/dev/null
for i in 1 2 3 4 5; do
  o2=$(mktemp /verif/.scratch/baseline.XXXXXX.json)
  timeout 60 go test -json -vet=off -count=1 -timeout 40s -run 'TestCodecConnWriteNext$' . > "$o2" 2>/dev/null
  if grep -q '"Action":"pass","Package":"github.com/talostrading/sonic","Test":"TestCodecConnWriteNext"' "$o2"; then cat "$o2" >> "$out"; rm -f "$o2"; break; fi
  rm -f "$o2"; pkill -f 'sonic.test' 2>/dev/null; sleep 2
done
python3 - "$out" <<'PY'
import json,sys
base=json.load(open('/root/.vp/BASELINE.json'))['stable_pass']
res={}
for l in open(sys.argv[1]):
    try: d=json.loads(l)
    except: continue
    if d.get('Test') and d.get('Action') in('pass','fail','skip') and '/' not in d['Test']:
        k=d['Package']+'::'+d['Test']
        if res.get(k)!='pass': res[k]=d['Action']
bad=[t for t in base if res.get(t)!='pass']
print(f"baseline: {len(base)-len(bad)}/{len(base)} stable tests pass")
for t in bad: print("  NOT PASSING:",t,res.get(t))
sys.exit(1 if bad else 0)
PY
rc=$?
rm -f "$out"
exit $rc
