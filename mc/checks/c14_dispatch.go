package checks

// C14 — inline completions never nest deeper than the dispatch limit.
//
// Engine E1 over real descriptors. A program is a cycle of length 1..3 over 17 operation kinds
// {conn read, conn write, FIFO read, FIFO write, regular-file read, regular-file write, accept, packet read,
// packet write, multicast-peer read, multicast-peer write; and five that complete at once with an error: read at
// end of stream on a connection and on a FIFO, write on a reset connection, oversized datagram through a packet
// conn and through a multicast peer, accept on a listener that was shut down} (all 5202 cycles) and a chain length in
// {31,32,33,34,70}; every object is pre-loaded so that each operation can complete immediately; the
// completion callback of step i issues step i+1 on the next kind of the cycle.
// Oracle: a harness counter incremented on callback entry and decremented on exit never exceeds
// MaxCallbackDispatch+1; when the start call returns (stack unwound) IO.Dispatched is 0; the operation issued
// at the limit is deferred and completes, after polling, with the result it would have had inline (the next
// byte of the generator, a connection, the datagram); every chain element completes exactly once.

import (
	"fmt"
	"io"
	"net"
	"net/netip"
	"os"
	"strings"
	"syscall"
	"time"

	"github.com/talostrading/sonic"
	"github.com/talostrading/sonic/multicast"
	"github.com/talostrading/sonic/sonicopts"
	"verifmc/engine"
	"verifmc/kern"
)

var c14Kinds = []string{"conn-read", "conn-write", "fifo-read", "fifo-write", "file-read", "file-write", "accept", "pkt-read", "pkt-write", "mc-read", "mc-write",
	// operations that complete immediately with an error: the accounting must unwind for them exactly as for successes
	"conn-read-eof", "fifo-read-eof", "conn-write-epipe", "pkt-write-toobig", "mc-write-toobig", "accept-fails"}

type c14Env struct {
	x       *engine.X
	ioc     *sonic.IO
	chain   int
	cycle   []int
	depth   int
	maxD    int
	done    int
	calls   []int
	fails   []string
	tcp     sonic.Conn
	tcpP    int
	tcpPos  int
	fr      sonic.File
	frP     int
	frPos   int
	fw      sonic.File
	fwP     int
	regR    sonic.File
	regPos  int
	regW    sonic.File
	lst     sonic.Listener
	conns   []int
	pkt     sonic.PacketConn
	pktP    int
	pktPP   int
	pktSeq  int
	mc      *multicast.UDPPeer
	mcP     int
	mcPP    int
	mcSeq   int
	eofTcp  sonic.Conn
	eofFifo sonic.File
	rstTcp  sonic.Conn
	deadLst sonic.Listener
	closers []func()
	all     bool // stream reads and writes use AsyncReadAll / AsyncWriteAll
}

func (e *c14Env) need(kind string, count int) {
	ioc := e.ioc
	switch kind {
	case "conn-read", "conn-write":
		if e.tcp == nil {
			lfd, addr, port, err := kern.TCPListener()
			if err != nil {
				engine.HarnessError("%v", err)
			}
			c, err := sonic.Dial(ioc, "tcp", kern.AddrString(addr, port))
			if err != nil {
				engine.HarnessError("Dial: %v", err)
			}
			p, _ := kern.AcceptRaw(lfd, settleGuard)
			syscall.Close(lfd)
			e.tcp, e.tcpP = c, p
			e.closers = append(e.closers, func() {
				syscall.SetsockoptLinger(c.RawFd(), syscall.SOL_SOCKET, syscall.SO_LINGER, &syscall.Linger{Onoff: 1})
				c.Close()
				kern.Abort(p)
			})
		}
		if kind == "conn-read" {
			syscall.Write(e.tcpP, genBytes(0, count))
			kern.AwaitInq(e.tcp.RawFd(), count, settleGuard)
		}
	case "conn-read-eof", "conn-write-epipe":
		lfd, addr, port, err := kern.TCPListener()
		if err != nil {
			engine.HarnessError("%v", err)
		}
		c, err := sonic.Dial(ioc, "tcp", kern.AddrString(addr, port))
		if err != nil {
			engine.HarnessError("Dial: %v", err)
		}
		p, _ := kern.AcceptRaw(lfd, settleGuard)
		syscall.Close(lfd)
		if kind == "conn-read-eof" {
			syscall.Shutdown(p, syscall.SHUT_WR) // orderly end of stream: every read reports EOF at once
			if !kern.AwaitReadReady(c.RawFd(), settleGuard) {
				e.x.Inconclusive("FIN did not arrive")
			}
			e.eofTcp = c
		} else {
			kern.Abort(p) // reset: every write fails at once
			p = -1
			if !kern.AwaitReadReady(c.RawFd(), settleGuard) {
				e.x.Inconclusive("RST did not arrive")
			}
			var one [1]byte
			syscall.Read(c.RawFd(), one[:]) // consume the pending ECONNRESET so that writes report EPIPE from the first one on
			e.rstTcp = c
		}
		e.closers = append(e.closers, func() {
			c.Close()
			if p >= 0 {
				kern.Abort(p)
			}
		})
	case "accept-fails":
		// a listener whose socket was shut down for reading: accept(2) fails at once (EINVAL), every time
		addr := kern.NextLoopback()
		l, err := sonic.Listen(ioc, "tcp", kern.AddrString(addr, 0), sonicopts.Nonblocking(true))
		if err != nil {
			engine.HarnessError("Listen: %v", err)
		}
		syscall.Shutdown(l.RawFd(), syscall.SHUT_RD)
		e.deadLst = l
		e.closers = append(e.closers, func() { l.Close() })
	case "fifo-read-eof":
		r, w, _ := kern.Pipe(0)
		f, err := sonic.Open(ioc, fmt.Sprintf("/proc/self/fd/%d", r), syscall.O_RDONLY|syscall.O_NONBLOCK, 0)
		syscall.Close(r)
		if err != nil {
			engine.HarnessError("Open: %v", err)
		}
		syscall.Close(w)
		e.eofFifo = f
		e.closers = append(e.closers, func() { f.Close() })
	case "pkt-write-toobig":
		e.need("pkt-write", count)
	case "mc-write-toobig":
		e.need("mc-write", count)
	case "fifo-read":
		r, w, _ := kern.Pipe(0)
		f, err := sonic.Open(ioc, fmt.Sprintf("/proc/self/fd/%d", r), syscall.O_RDONLY|syscall.O_NONBLOCK, 0)
		syscall.Close(r)
		if err != nil {
			engine.HarnessError("Open: %v", err)
		}
		syscall.Write(w, genBytes(0, count))
		e.fr, e.frP = f, w
		e.closers = append(e.closers, func() { f.Close(); syscall.Close(w) })
	case "fifo-write":
		r, w, _ := kern.Pipe(0)
		f, err := sonic.Open(ioc, fmt.Sprintf("/proc/self/fd/%d", w), syscall.O_WRONLY|syscall.O_NONBLOCK, 0)
		syscall.Close(w)
		if err != nil {
			engine.HarnessError("Open: %v", err)
		}
		e.fw, e.fwP = f, r
		e.closers = append(e.closers, func() { f.Close(); syscall.Close(r) })
	case "file-read", "file-write":
		path := fmt.Sprintf("%s/.scratch/c14-%d-%s", engine.Root, os.Getpid(), kind)
		os.WriteFile(path, genBytes(0, count+8), 0o600)
		f, err := sonic.Open(ioc, path, syscall.O_RDWR, 0)
		os.Remove(path)
		if err != nil {
			engine.HarnessError("Open: %v", err)
		}
		if kind == "file-read" {
			e.regR = f
		} else {
			e.regW = f
		}
		e.closers = append(e.closers, func() { f.Close() })
	case "accept":
		addr := kern.NextLoopback()
		l, err := sonic.Listen(ioc, "tcp", kern.AddrString(addr, 0), sonicopts.Nonblocking(true))
		if err != nil {
			engine.HarnessError("Listen: %v", err)
		}
		sa, _ := syscall.Getsockname(l.RawFd())
		port := sa.(*syscall.SockaddrInet4).Port
		for i := 0; i < count; i++ {
			c, err := kern.ConnectRaw(addr, port)
			if err != nil {
				e.x.Inconclusive("connect: " + err.Error())
			}
			e.conns = append(e.conns, c)
		}
		e.lst = l
		e.closers = append(e.closers, func() {
			l.Close()
			for _, c := range e.conns {
				kern.Abort(c)
			}
		})
	case "pkt-read", "pkt-write":
		if e.pkt == nil {
			pc, err := sonic.NewPacketConn(ioc, "udp", "127.0.0.1:0")
			if err != nil {
				engine.HarnessError("NewPacketConn: %v", err)
			}
			p, pp, _ := kern.UDPSocket()
			e.pkt, e.pktP, e.pktPP = pc, p, pp
			e.closers = append(e.closers, func() { pc.Close(); syscall.Close(p) })
		}
		if kind == "pkt-read" {
			sa, _ := syscall.Getsockname(e.pkt.RawFd())
			for i := 0; i < count; i++ {
				syscall.Sendto(e.pktP, []byte{byte(i), 0xEE}, 0, sa)
			}
		}
	case "mc-read", "mc-write":
		if e.mc == nil {
			p, err := newOwnPeer(ioc, "127.0.0.1")
			if err != nil {
				engine.HarnessError("NewUDPPeer: %v", err)
			}
			rp, rpp, _ := kern.UDPSocket()
			e.mc, e.mcP, e.mcPP = p, rp, rpp
			e.closers = append(e.closers, func() { p.Close(); syscall.Close(rp) })
		}
		if kind == "mc-read" {
			for i := 0; i < count; i++ {
				syscall.Sendto(e.mcP, []byte{byte(i), 0xDD}, 0, &syscall.SockaddrInet4{Addr: [4]byte{127, 0, 0, 1}, Port: e.mc.LocalAddr().Port})
			}
		}
	}
}

func (e *c14Env) enter(i int) {
	e.calls[i]++
	e.depth++
	if e.depth > e.maxD {
		e.maxD = e.depth
	}
}

func (e *c14Env) leave(i int) {
	e.depth--
	e.done++
}

func (e *c14Env) bad(i int, format string, a ...any) {
	e.fails = append(e.fails, fmt.Sprintf("step %d (%s): ", i, c14Kinds[e.cycle[i%len(e.cycle)]])+fmt.Sprintf(format, a...))
}

// step issues chain element i.
func (e *c14Env) step(i int) {
	if i >= e.chain {
		return
	}
	kind := c14Kinds[e.cycle[i%len(e.cycle)]]
	next := func() { e.step(i + 1) }
	switch kind {
	case "conn-read", "fifo-read", "file-read":
		var f sonic.FileDescriptor
		var pos *int
		switch kind {
		case "conn-read":
			f, pos = e.tcp, &e.tcpPos
		case "fifo-read":
			f, pos = e.fr, &e.frPos
		default:
			f, pos = e.regR, &e.regPos
		}
		b := make([]byte, 1)
		rd := f.AsyncRead
		if e.all {
			rd = f.AsyncReadAll // (the *All forms go through the same limit)
		}
		rd(b, func(err error, n int) {
			e.enter(i)
			if err != nil || n != 1 || b[0] != genByte(*pos) {
				e.bad(i, "read completed with err=%v n=%d byte=%#x, inline it would have delivered byte %d = %#x", err, n, b[0], *pos, genByte(*pos))
			}
			*pos += n
			next()
			e.leave(i)
		})
	case "conn-write", "fifo-write", "file-write":
		var f sonic.FileDescriptor
		switch kind {
		case "conn-write":
			f = e.tcp
		case "fifo-write":
			f = e.fw
		default:
			f = e.regW
		}
		wr := f.AsyncWrite
		if e.all {
			wr = f.AsyncWriteAll
		}
		wr([]byte{0x77}, func(err error, n int) {
			e.enter(i)
			if err != nil || n != 1 {
				e.bad(i, "write completed with err=%v n=%d, inline it would have written 1 byte", err, n)
			}
			next()
			e.leave(i)
		})
	case "conn-read-eof", "fifo-read-eof":
		var f sonic.FileDescriptor = e.eofTcp
		if kind == "fifo-read-eof" {
			f = e.eofFifo
		}
		b := make([]byte, 1)
		f.AsyncRead(b, func(err error, n int) {
			e.enter(i)
			if err != io.EOF || n != 0 {
				e.bad(i, "read at end of stream completed with err=%v n=%d, inline it reports io.EOF", err, n)
			}
			next()
			e.leave(i)
		})
	case "accept-fails":
		e.deadLst.AsyncAccept(func(err error, c sonic.Conn) {
			e.enter(i)
			if err == nil || c != nil {
				e.bad(i, "accept on a listener that was shut down completed with err=%v conn=%v", err, c)
				if c != nil {
					c.Close()
				}
			}
			next()
			e.leave(i)
		})
	case "conn-write-epipe":
		e.rstTcp.AsyncWrite([]byte{0x77}, func(err error, n int) {
			e.enter(i)
			if err == nil || n != 0 {
				e.bad(i, "write on a reset connection completed with err=%v n=%d", err, n)
			}
			next()
			e.leave(i)
		})
	case "pkt-write-toobig":
		e.pkt.AsyncWriteTo(c14TooBig, &net.UDPAddr{IP: net.IPv4(127, 0, 0, 1), Port: e.pktPP}, func(err error) {
			e.enter(i)
			if err == nil {
				e.bad(i, "a 65508-byte datagram was reported written")
			}
			next()
			e.leave(i)
		})
	case "mc-write-toobig":
		e.mc.AsyncWrite(c14TooBig, netip.AddrPortFrom(netip.AddrFrom4([4]byte{127, 0, 0, 1}), uint16(e.mcPP)), func(err error, n int) {
			e.enter(i)
			if err == nil || n != 0 {
				e.bad(i, "a 65508-byte datagram was reported written: err=%v n=%d", err, n)
			}
			next()
			e.leave(i)
		})
	case "accept":
		e.lst.AsyncAccept(func(err error, c sonic.Conn) {
			e.enter(i)
			if err != nil || c == nil {
				e.bad(i, "accept completed with err=%v conn=%v although a connection is queued", err, c)
			}
			if c != nil {
				syscall.SetsockoptLinger(c.RawFd(), syscall.SOL_SOCKET, syscall.SO_LINGER, &syscall.Linger{Onoff: 1})
				c.Close()
			}
			next()
			e.leave(i)
		})
	case "pkt-read":
		b := make([]byte, 8)
		e.pkt.AsyncReadFrom(b, func(err error, n int, from net.Addr) {
			e.enter(i)
			if err != nil || n != 2 || b[0] != byte(e.pktSeq) {
				e.bad(i, "packet read completed with err=%v n=%d first=%d, datagram %d is queued", err, n, b[0], e.pktSeq)
			}
			e.pktSeq++
			next()
			e.leave(i)
		})
	case "pkt-write":
		e.pkt.AsyncWriteTo([]byte{1, 2}, &net.UDPAddr{IP: net.IPv4(127, 0, 0, 1), Port: e.pktPP}, func(err error) {
			e.enter(i)
			if err != nil {
				e.bad(i, "packet write completed with %v", err)
			}
			next()
			e.leave(i)
		})
	case "mc-read":
		b := make([]byte, 8)
		e.mc.AsyncRead(b, func(err error, n int, from netip.AddrPort) {
			e.enter(i)
			if err != nil || n != 2 || b[0] != byte(e.mcSeq) {
				e.bad(i, "peer read completed with err=%v n=%d first=%d, datagram %d is queued", err, n, b[0], e.mcSeq)
			}
			e.mcSeq++
			next()
			e.leave(i)
		})
	case "mc-write":
		e.mc.AsyncWrite([]byte{3, 4}, netip.AddrPortFrom(netip.AddrFrom4([4]byte{127, 0, 0, 1}), uint16(e.mcPP)), func(err error, n int) {
			e.enter(i)
			if err != nil || n != 2 {
				e.bad(i, "peer write completed with err=%v n=%d", err, n)
			}
			next()
			e.leave(i)
		})
	}
}

var c14TooBig = make([]byte, 65508) // one byte more than the largest UDP payload over IPv4: sendto fails with EMSGSIZE

func c14Cycles() [][]int {
	var out [][]int
	k := len(c14Kinds)
	for a := 0; a < k; a++ {
		out = append(out, []int{a})
	}
	for a := 0; a < k; a++ {
		for b := 0; b < k; b++ {
			out = append(out, []int{a, b})
		}
	}
	for a := 0; a < k; a++ {
		for b := 0; b < k; b++ {
			for c := 0; c < k; c++ {
				out = append(out, []int{a, b, c})
			}
		}
	}
	return out
}

func c14Body(x *engine.X) {
	cycles := c14Cycles()
	cyc := cycles[x.Pick(len(cycles), "cycle")]
	chain := []int{33, 31, 32, 34, 70}[x.Pick(5, "chain length")]
	ioc, err := sonic.NewIO()
	if err != nil {
		engine.HarnessError("NewIO: %v", err)
	}
	e := &c14Env{x: x, ioc: ioc, chain: chain, cycle: cyc, calls: make([]int, chain)}
	for _, k := range cyc {
		switch c14Kinds[k] {
		case "conn-read", "fifo-read", "file-read", "conn-write", "fifo-write", "file-write":
			e.all = true
		}
	}
	e.all = e.all && x.Pick(2, "stream operations: AsyncRead/AsyncWrite | AsyncReadAll/AsyncWriteAll") == 1
	x.Defer(func() {
		for _, c := range e.closers {
			c()
		}
		ioc.Close()
	})
	names := ""
	seen := map[string]bool{}
	for _, k := range cyc {
		names += c14Kinds[k] + " "
		if !seen[c14Kinds[k]] {
			seen[c14Kinds[k]] = true
			e.need(c14Kinds[k], chain)
		}
	}
	x.Note("cycle [%s] chain %d", names, chain)
	x.Nontrivial()
	e.step(0)
	if ioc.Dispatched != 0 {
		x.Fail("dispatch/counter-not-zero-after-unwind", "after the start call returned IO.Dispatched=%d (cycle %s chain %d)", ioc.Dispatched, names, chain)
	}
	polls := 0
	for ; e.done < chain && polls < chain+8; polls++ {
		ioc.PollOne()
		if ioc.Dispatched != 0 {
			x.Fail("dispatch/counter-not-zero-after-unwind", "after PollOne returned IO.Dispatched=%d (cycle %s chain %d)", ioc.Dispatched, names, chain)
		}
	}
	usesRegular := false
	for _, k := range cyc {
		if c14Kinds[k] == "file-read" || c14Kinds[k] == "file-write" {
			usesRegular = true
		}
	}
	if e.maxD > sonic.MaxCallbackDispatch+1 {
		sig := "dispatch/nesting-exceeds-limit"
		if usesRegular && len(e.fails) > 0 {
			// the registration failure of a regular file is reported by an inline callback one level deeper,
			// and the next step starts from there
			sig = "file@limit/regular-file/error-callback-nested-beyond-limit"
		}
		x.Fail(sig, "cycle [%s] chain %d: %d completion callbacks were nested on the stack, limit is %d+1", names, chain, e.maxD, sonic.MaxCallbackDispatch)
	}
	if len(e.fails) > 0 {
		sig := "dispatch/deferred-result-differs"
		kind := c14Kinds[cyc[0]]
		for _, k := range cyc {
			if c14Kinds[k] == "file-read" || c14Kinds[k] == "file-write" {
				kind = "regular-file"
			}
		}
		if kind == "regular-file" {
			sig = "file@limit/regular-file/deferred-result-differs"
		}
		x.Fail(sig, "cycle [%s] chain %d: %s (%d such steps)", names, chain, e.fails[0], len(e.fails))
	}
	for i, c := range e.calls {
		if c != 1 {
			x.Fail("dispatch/chain-element-not-once", "cycle [%s] chain %d: callback of step %d ran %d times after %d polls (completed %d of %d)", names, chain, i, c, polls, e.done, chain)
		}
	}
	x.Outcome(fmt.Sprintf("len%d/chain%d/maxdepth%d/polls%d", len(cyc), chain, e.maxD, min(polls, 4)))
}

// c14Nested: k operations of kind X complete inline, each from the previous one's callback; the k-th callback
// (running k levels deep) issues an operation of kind Y for which NOTHING is ready, so it is handed to the poller
// with the stack k levels deep. The stack unwinds, the peer then supplies what Y waits for, and the poller completes
// Y from the top of the stack. After the unwinding and after every poll the accounting must be back to zero, Y
// must get the result it would have had inline, and a further chain started from Y's callback obeys the limit.
var c14Waitable = []string{"conn-read", "fifo-read", "accept", "pkt-read", "mc-read"}

func c14NestedBody(x *engine.X) {
	// (regular files are left out: their behaviour at the limit is the recorded finding of the cycle family)
	ready := []string{"conn-read", "conn-write", "fifo-read", "fifo-write", "accept", "pkt-read", "pkt-write", "mc-read", "mc-write"}
	X := ready[x.Pick(len(ready), "kind of the operations that complete inline")]
	Y := c14Waitable[x.Pick(len(c14Waitable), "kind of the operation that has to wait")]
	k := []int{1, 2, 31}[x.Pick(3, "nesting depth at which the waiting operation is issued")]
	tail := 33 // operations of kind X chained from Y's callback
	ioc, err := sonic.NewIO()
	if err != nil {
		engine.HarnessError("NewIO: %v", err)
	}
	ix := func(name string) int {
		for i, n := range c14Kinds {
			if n == name {
				return i
			}
		}
		return -1
	}
	var cyc []int
	for i := 0; i < k; i++ {
		cyc = append(cyc, ix(X))
	}
	cyc = append(cyc, ix(Y))
	for i := 0; i < tail; i++ {
		cyc = append(cyc, ix(X))
	}
	chain := len(cyc)
	e := &c14Env{x: x, ioc: ioc, chain: chain, cycle: cyc, calls: make([]int, chain)}
	x.Defer(func() {
		for _, c := range e.closers {
			c()
		}
		ioc.Close()
	})
	x.Note("nested: %d x %s, then %s with nothing ready, then %d x %s", k, X, Y, tail, X)
	x.Nontrivial()
	// X is pre-loaded for the k operations before Y only: when Y is issued nothing is queued for it (also if X == Y)
	e.need(X, k)
	if Y != X {
		e.need(Y, 0)
	}
	e.step(0)
	if e.done != k {
		x.Fail("dispatch/nested/prefix-incomplete", "%d of the %d pre-loaded %s operations completed inline", e.done, k, X)
	}
	if e.calls[k] != 0 {
		x.Fail("dispatch/nested/completed-without-input", "the %s issued with nothing ready completed", Y)
	}
	if ioc.Dispatched != 0 {
		x.Fail("dispatch/counter-not-zero-after-unwind", "%d x %s, then %s parked in the poller from %d levels deep: after the stack unwound IO.Dispatched=%d", k, X, Y, k, ioc.Dispatched)
	}
	// the peer now supplies what Y waits for, and what the tail needs
	supply := func(kind string, count int) {
		switch kind {
		case "conn-read":
			syscall.Write(e.tcpP, genBytes(e.tcpPos, count))
			kern.AwaitInq(e.tcp.RawFd(), count, settleGuard)
		case "fifo-read":
			syscall.Write(e.frP, genBytes(e.frPos, count))
		case "accept":
			sa, _ := syscall.Getsockname(e.lst.RawFd())
			in := sa.(*syscall.SockaddrInet4)
			for i := 0; i < count; i++ {
				c, err := kern.ConnectRaw(in.Addr, in.Port)
				if err != nil {
					x.Inconclusive("connect: " + err.Error())
				}
				e.conns = append(e.conns, c)
			}
		case "pkt-read":
			sa, _ := syscall.Getsockname(e.pkt.RawFd())
			for i := 0; i < count; i++ {
				syscall.Sendto(e.pktP, []byte{byte(e.pktSeq + i), 0xEE}, 0, sa)
			}
		case "mc-read":
			for i := 0; i < count; i++ {
				syscall.Sendto(e.mcP, []byte{byte(e.mcSeq + i), 0xDD}, 0, &syscall.SockaddrInet4{Addr: [4]byte{127, 0, 0, 1}, Port: e.mc.LocalAddr().Port})
			}
		}
	}
	if X == Y {
		supply(Y, 1+tail)
	} else {
		supply(Y, 1)
		supply(X, tail)
	}
	var yfd int
	switch Y {
	case "conn-read":
		yfd = e.tcp.RawFd()
	case "fifo-read":
		yfd = e.fr.RawFd()
	case "accept":
		yfd = e.lst.RawFd()
	case "pkt-read":
		yfd = e.pkt.RawFd()
	case "mc-read":
		yfd = e.mc.NextLayer().RawFd()
	}
	if !kern.AwaitReadReady(yfd, settleGuard) {
		x.Inconclusive("input for the waiting operation did not arrive")
	}
	polls := 0
	for ; e.done < chain && polls < 12; polls++ {
		ioc.PollOne()
		if ioc.Dispatched != 0 {
			x.Fail("dispatch/counter-not-zero-after-unwind", "%d x %s, then %s parked from %d levels deep and completed by the poller: after PollOne returned IO.Dispatched=%d", k, X, Y, k, ioc.Dispatched)
		}
	}
	if e.calls[k] != 1 {
		x.Fail("dispatch/chain-element-not-once", "the %s issued %d levels deep with nothing ready ran its callback %d times after its input arrived and %d polls", Y, k, e.calls[k], polls)
	}
	usesRegular := false
	if e.maxD > sonic.MaxCallbackDispatch+1 && !usesRegular {
		x.Fail("dispatch/nesting-exceeds-limit", "nested: %d completion callbacks were on the stack, limit is %d+1", e.maxD, sonic.MaxCallbackDispatch)
	}
	if len(e.fails) > 0 && !usesRegular {
		x.Fail("dispatch/deferred-result-differs", "nested (%d x %s, %s, %d x %s): %s", k, X, Y, tail, X, e.fails[0])
	}
	if !usesRegular {
		for i, c := range e.calls {
			if c != 1 {
				x.Fail("dispatch/chain-element-not-once", "nested (%d x %s, %s, %d x %s): callback of step %d ran %d times after %d polls", k, X, Y, tail, X, i, c, polls)
			}
		}
	}
	x.Outcome(fmt.Sprintf("nested/%s/%s/%d/maxdepth%d", X, Y, k, e.maxD))
}

func c14DFS(tier string) *engine.DFS {
	return &engine.DFS{Name: "chains@" + tier, Body: c14Body, Procs: 16, WorkerProcs: 2, ShardDepth: 1, MaxDeviations: 0, MaxPoints: 50, HangTimeout: 30 * time.Second}
}

func c14NestedDFS(tier string) *engine.DFS {
	return &engine.DFS{Name: "nested@" + tier, Body: c14NestedBody, Procs: 16, WorkerProcs: 2, ShardDepth: 1, MaxDeviations: 0, MaxPoints: 50, HangTimeout: 30 * time.Second}
}

func C14(tier string) *engine.Report {
	rep := engine.NewReport("C14", tier, "exploration")
	var tot engine.DFSTotals
	d := c14DFS(tier)
	tot.Add(d.Run(), rep)
	tot.Add(c14NestedDFS(tier).Run(), rep)
	tot.Add(c14BlockedDFS(tier).Run(), rep)
	tot.Fill(rep, "all 5202 cycles of length 1..3 over 17 operation kinds (11 that succeed, 6 that complete at once with an error: accept on a listener shut down for reading, end of stream on a connection and a FIFO, write on a reset connection, oversized datagram on a packet conn and a multicast peer) x chain lengths {31,32,33,34,70}, every object pre-loaded so each step can complete immediately, each callback issuing the next step; "+
		"nesting counter, IO.Dispatched after unwinding, per-step result and exactly-once are checked; every case is non-trivial (the chain crosses the dispatch limit, except length 31 which stays just below it); plus 135 nested cases: 1/2/31 inline completions of each of 9 kinds, then a read/accept of each of 5 kinds issued from that depth with nothing ready, completed later by the poller, then 33 more inline operations; plus 32 blocked-write cases: AsyncWrite / AsyncWriteAll on a connection with a full send buffer or a full FIFO issued 0/1/2/31 levels deep, once or twice in a row, completed by the poller after the peer drained, then a chain of 40 inline writes that must still reach exactly the limit", 0)
	return rep
}

func C14Replay(v engine.Violation, log func(string)) *engine.Violation {
	if strings.HasPrefix(v.Config, "blocked@") {
		return c14BlockedDFS(v.Config[8:]).ReplayChoices(v.Choices)
	}
	if strings.HasPrefix(v.Config, "nested@") {
		return c14NestedDFS(v.Config[7:]).ReplayChoices(v.Choices)
	}
	return c14DFS(v.Config[7:]).ReplayChoices(v.Choices)
}
