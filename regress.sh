#!/bin/bash
# regress.sh — for every "fixed:" line of KNOWN_FINDINGS.txt: revert that fix commit in /repo's working tree (not
# committed), run the quick check of the property, expect exit 1 with a VIOLATION line, then restore the tree.
# Results go to stdout as markdown table rows. /repo must be clean when this starts and is clean when it ends.
cd /repo || exit 2
if [ -n "$(git status --porcelain)" ]; then echo "/repo is not clean"; exit 2; fi
only="${1:-}"
grep '^fixed:' /verif/KNOWN_FINDINGS.txt | while read -r _ prop commit rest; do
  id=${prop#property=}
  [ -n "$only" ] && [ "$only" != "$id" ] && continue
  how="revert of fix $commit"
  if ! git revert -n "$commit" >/dev/null 2>&1; then
    git revert --abort >/dev/null 2>&1; git reset -q --hard HEAD
    # later fixes touch the same lines: use the hand-made reverse patch kept under seeded/R-<commit>
    if [ -f "/verif/seeded/R-$commit/patch.diff" ] && git apply "/verif/seeded/R-$commit/patch.diff" 2>/dev/null; then
      how="revert of fix $commit (hand-made reverse patch seeded/R-$commit: the commit no longer reverts cleanly)"
    else
      echo "| $id | revert of fix $commit | (revert conflicts with later fixes and no reverse patch: skipped) | - |"
      continue
    fi
  fi
  out=$(cd /verif && timeout 900 ./run.sh "$id" quick 2>&1); rc=$?
  sigs=$(echo "$out" | grep -o 'sig=[^ ]*' | sort -u | tr '\n' ' ')
  git revert --abort >/dev/null 2>&1; git reset -q --hard HEAD
  verdict="MISSED"; [ $rc -eq 1 ] && verdict="caught"
  [ $rc -ge 2 ] && verdict="harness-error(rc=$rc)"
  echo "| $id | $how | $verdict | ${sigs:-none} |"
done
git -C /repo status --porcelain | head -3
