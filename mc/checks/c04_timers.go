package checks

// C04 — timer guarantees: never early, at most once, never after cancel/close, one schedule at a time.
//
// Engine E1 over the real poller: two timers (a third can be created so that the descriptor number of a
// closed timer is reused) and a FIFO reader on one IO. Actions: ScheduleOnce / ScheduleRepeating with
// d in {<=0, short, 10 s}, Cancel, Close, new timer, start a FIFO read, peer data, poll. Timing is owned: a
// short timer is awaited to expiry on its timerfd (the kernel says when) right after it is armed or
// re-armed, so "expired but not yet dispatched" is a deterministic state, and a 10 s timer never expires
// within an execution, so "scheduled and not due" is one too. Handler behaviour at every callback entry is a
// deviation: cancel / close / re-schedule itself or the other timer, cancel-and-re-arm the other with
// 10 s, start a schedule on the other. Oracle: reference timer {ready, scheduled(generation, delay,
// repeating), closed}; a callback must belong to the current generation (otherwise it ran after
// Cancel/Close or twice), must not enter earlier than delay after the scheduling call (CLOCK_MONOTONIC
// taken before the call vs at entry), must run within 2 polls once the kernel reports the timerfd of a
// scheduled timer expired; Schedule* on a scheduled or closed timer fails and changes nothing; Scheduled()
// equals the model after every top-level action.

import (
	"fmt"
	"golang.org/x/sys/unix"
	"strings"
	"syscall"
	"time"

	"github.com/talostrading/sonic"
	"verifmc/engine"
	"verifmc/kern"
)

const (
	tShort = 30 * time.Microsecond
	tMed   = 1500 * time.Microsecond // re-armed from a handler: long enough not to expire within the same poll batch; not a whole number of milliseconds
	tLong  = 10 * time.Second
)

type mtimer struct {
	name      string
	t         *sonic.Timer
	fd        int
	state     int // 0 ready 1 scheduled 2 closed
	gen       int
	delay     time.Duration
	repeating bool
	armedAt   time.Time
	fires     int
}

type tmDriver struct {
	x      *engine.X
	ioc    *sonic.IO
	timers []*mtimer
	fifo   sonic.File
	fifoFd int
	peer   int
	rdInfl bool
	genSeq int
	depthH int // nesting of handlers (limits re-entrancy of behaviours)
}

func (d *tmDriver) newTimer() *mtimer {
	fd := lowestFreeFd()
	t, err := sonic.NewTimer(d.ioc)
	if err != nil {
		engine.HarnessError("NewTimer: %v", err)
	}
	if k := kern.FdKind(fd); k != "anon_inode:[timerfd]" {
		engine.HarnessError("expected a timerfd at %d, found %q", fd, k)
	}
	m := &mtimer{name: fmt.Sprintf("T%d", len(d.timers)+1), t: t, fd: fd}
	d.timers = append(d.timers, m)
	return m
}

func (d *tmDriver) awaitIfShort(m *mtimer) {
	if m.state == 1 && m.delay <= tMed {
		if !kern.AwaitReadable(m.fd, settleGuard) {
			d.x.Inconclusive("timerfd did not expire")
		}
	}
}

// callback builds the callback for one schedule generation.
func (d *tmDriver) callback(m *mtimer, gen int, delay time.Duration, repeating bool, start time.Time) func() {
	last := start
	return func() {
		now := time.Now()
		d.x.Note("  fire %s gen=%d", m.name, gen)
		if m.state == 2 {
			d.x.Fail("timer/fired-after-close", "%s: callback of schedule %d ran after Close", m.name, gen)
		}
		if m.state != 1 || m.gen != gen {
			what := "after a successful Cancel"
			if m.state == 1 {
				what = "although it was cancelled and the timer re-scheduled since (it belongs to an older schedule)"
			}
			d.x.Fail("timer/fired-after-cancel-or-twice", "%s: callback of schedule %d ran %s (model state %d, current schedule %d)", m.name, gen, what, m.state, m.gen)
		}
		if el := now.Sub(last); el < delay {
			d.x.Fail("timer/fired-early", "%s: callback entered %v after it was scheduled for %v", m.name, el, delay)
		}
		last = now
		m.fires++
		if !repeating {
			m.state = 0
		}
		d.behave(m)
		if repeating && m.state == 1 && m.gen == gen {
			// sonic re-arms after this callback returns; the harness re-establishes "expired" at the next top-level point
			m.armedAt = time.Now()
		}
	}
}

func (d *tmDriver) schedule(m *mtimer, delay time.Duration, repeating bool) {
	d.genSeq++
	gen := d.genSeq
	prevState, prevGen := m.state, m.gen
	start := time.Now()
	name := "ScheduleOnce"
	if repeating {
		name = "ScheduleRepeating"
	}
	d.x.Note("%s(%s,%v)", name, m.name, delay)
	willRun := prevState == 0 && (delay > 0 || !repeating)
	if willRun && delay > 0 {
		m.state, m.gen, m.delay, m.repeating = 1, gen, delay, repeating
	}
	inlineBefore := m.fires
	cb := d.callback(m, gen, delay, repeating, start)
	if willRun && delay <= 0 {
		// executed as soon as possible: inline, once; it is not a schedule
		ran := 0
		err := m.t.ScheduleOnce(delay, func() { ran++; d.x.Note("  inline %s", m.name) })
		if err != nil || ran != 1 {
			d.x.Fail("timer.ScheduleOnce/non-positive-delay", "%s: ScheduleOnce(%v) = %v, callback ran %d times", m.name, delay, err, ran)
		}
		return
	}
	var err error
	if repeating {
		err = m.t.ScheduleRepeating(delay, cb)
	} else {
		err = m.t.ScheduleOnce(delay, cb)
	}
	_ = inlineBefore
	if willRun {
		if err != nil {
			d.x.Fail("timer."+name+"/error", "%s: %s(%v) on a ready timer: %v", m.name, name, delay, err)
		}
		// the kernel's view: an accepted schedule with a positive delay means the timerfd is armed (or has already
		// expired) — a delay that was rounded to zero on the way down disarms it instead, and nothing ever fires.
		// (A timer that is just expiring reports no time left a few microseconds before it becomes readable: hence the wait.)
		var cur unix.ItimerSpec
		if gerr := unix.TimerfdGettime(m.fd, &cur); gerr == nil && cur.Value.Sec == 0 && cur.Value.Nsec == 0 && m.fires == inlineBefore && kern.Poll(m.fd, unix.POLLIN, 20)&unix.POLLIN == 0 {
			d.x.Fail("timer/accepted-but-not-armed", "%s: %s(%v) returned nil, Scheduled()=%v, but the timerfd is neither armed nor expired: the callback can never run", m.name, name, delay, m.t.Scheduled())
		}
		return
	}
	// scheduled, closed, or a non-positive repeat: must fail and change nothing
	if err == nil {
		sig := "timer/schedule-while-scheduled-accepted"
		switch {
		case prevState == 2:
			sig = "timer/closed-timer-revived"
		case prevState == 0:
			sig = "timer.ScheduleRepeating/non-positive-accepted"
		}
		d.x.Fail(sig, "%s: %s(%v) returned nil in model state %d", m.name, name, delay, prevState)
	}
	if m.state != prevState || m.gen != prevGen {
		engine.HarnessError("model changed on refused schedule")
	}
}

func (d *tmDriver) cancel(m *mtimer) {
	d.x.Note("Cancel(%s)", m.name)
	err := m.t.Cancel()
	if m.state == 1 {
		if err != nil {
			d.x.Fail("timer.Cancel/error", "%s: Cancel of a scheduled timer: %v", m.name, err)
		}
		m.state = 0
	}
}

func (d *tmDriver) closeT(m *mtimer) {
	d.x.Note("Close(%s)", m.name)
	if err := m.t.Close(); err != nil && m.state != 2 {
		d.x.Fail("timer.Close/error", "%s: Close: %v", m.name, err)
	}
	m.state = 2
}

func (d *tmDriver) other(m *mtimer) *mtimer {
	for _, o := range d.timers {
		if o != m {
			return o
		}
	}
	return nil
}

// behave: what a handler (timer callback or FIFO read callback) does to the timers.
func (d *tmDriver) behave(self *mtimer) {
	if d.depthH > 1 {
		return
	}
	d.depthH++
	defer func() { d.depthH-- }()
	type beh struct {
		name string
		do   func()
	}
	list := []beh{{"nothing", func() {}}}
	targets := []*mtimer{}
	if self != nil {
		targets = append(targets, self)
		if o := d.other(self); o != nil {
			targets = append(targets, o)
		}
	} else {
		targets = append(targets, d.timers[:min(2, len(d.timers))]...)
	}
	for _, t := range targets {
		t := t
		list = append(list,
			beh{"cancel " + t.name, func() { d.cancel(t) }},
			beh{"close " + t.name, func() { d.closeT(t) }},
			beh{"cancel+rearm10s " + t.name, func() { d.cancel(t); d.schedule(t, tLong, false) }},
			beh{"cancel+rearm-1ms " + t.name, func() { d.cancel(t); d.schedule(t, tMed, false) }},
		)
		if t == self && len(d.timers) < 3 {
			// the closed timer's descriptor number is reused at once by a new timer, created in the same callback
			list = append(list, beh{"close " + t.name + " + new-timer + schedule it", func() {
				d.closeT(t)
				m := d.newTimer()
				d.x.Note("new %s at fd %d", m.name, m.fd)
				d.schedule(m, tLong, false)
			}})
		}
		if t == self && self.repeating && self.state == 1 {
			// a new schedule started from inside the repeating timer's own callback is not constrained by
			// the property (the implementation is between two repetitions there) — but whatever it did, a
			// Cancel that follows in the same invocation must end every schedule: nothing fires afterwards
			list = append(list, beh{"schedule10s-then-cancel " + t.name, func() {
				d.x.Note("ScheduleOnce(%s,10s) [unjudged] then Cancel", t.name)
				_ = t.t.ScheduleOnce(tLong, func() {
					d.x.Fail("timer/fired-after-cancel-or-twice", "%s: a schedule made inside the repeating callback and cancelled in the same invocation fired", t.name)
				})
				d.cancel(t)
				t.state = 0
			}})
			continue
		}
		list = append(list,
			beh{"schedule10s " + t.name, func() { d.schedule(t, tLong, false) }},
			beh{"schedule-short " + t.name, func() { d.schedule(t, tShort, false) }},
		)
	}
	k := d.x.Deviate(len(list), "handler behaviour")
	if k > 0 {
		d.x.Note("  handler: %s", list[k].name)
	}
	list[k].do()
}

func (d *tmDriver) checkScheduled(after string) {
	for _, m := range d.timers {
		if got, want := m.t.Scheduled(), m.state == 1; got != want {
			sig := "timer.Scheduled/mismatch"
			if m.state == 2 {
				sig = "timer/closed-timer-revived"
			}
			d.x.Fail(sig, "after %s %s.Scheduled()=%v but the model state is %d", after, m.name, got, m.state)
		}
	}
}

func (d *tmDriver) settle() {
	for _, m := range d.timers {
		d.awaitIfShort(m)
	}
}

func (d *tmDriver) poll() {
	t0 := time.Now()
	n, err := d.ioc.PollOne()
	d.x.Note("poll -> %d %v", n, err)
	// PollOne does not wait: every handler of this scenario returns at once, so a poll that takes seconds was put to
	// sleep inside the library (a timer descriptor read that blocks until the NEXT expiry, say). The threshold is half
	// the long delay the scenarios use; nothing here takes a thousandth of that.
	if el := time.Since(t0); el > tLong/2 {
		d.x.Fail("timer/poll-blocked", "a non-blocking PollOne took %v", el)
	}
}

func c04Body(depth int) func(x *engine.X) {
	return func(x *engine.X) {
		d := &tmDriver{x: x, peer: -1}
		ioc, err := sonic.NewIO()
		if err != nil {
			engine.HarnessError("NewIO: %v", err)
		}
		d.ioc = ioc
		x.Defer(func() {
			for _, m := range d.timers {
				m.t.Close()
			}
			if d.fifo != nil {
				d.fifo.Close()
			}
			if d.peer >= 0 {
				syscall.Close(d.peer)
			}
			ioc.Close()
		})
		d.newTimer()
		d.newTimer()
		r, w, _ := kern.Pipe(4096)
		f, err := sonic.Open(ioc, fmt.Sprintf("/proc/self/fd/%d", r), syscall.O_RDONLY|syscall.O_NONBLOCK, 0)
		syscall.Close(r)
		if err != nil {
			engine.HarnessError("Open: %v", err)
		}
		d.fifo, d.fifoFd, d.peer = f, f.RawFd(), w
		buf := make([]byte, 8)
		steps := 0
		for ; steps < depth; steps++ {
			type act struct {
				name string
				do   func()
			}
			var as []act
			for _, m := range d.timers {
				m := m
				for _, dl := range []time.Duration{tShort, tLong, 0} {
					dl := dl
					as = append(as, act{fmt.Sprintf("once(%s,%v)", m.name, dl), func() { d.schedule(m, dl, false) }})
				}
				for _, dl := range []time.Duration{tShort, tLong, -1} {
					dl := dl
					as = append(as, act{fmt.Sprintf("repeating(%s,%v)", m.name, dl), func() { d.schedule(m, dl, true) }})
				}
				as = append(as, act{"cancel(" + m.name + ")", func() { d.cancel(m) }})
				as = append(as, act{"close(" + m.name + ")", func() { d.closeT(m) }})
			}
			if len(d.timers) < 3 {
				as = append(as, act{"new-timer", func() { m := d.newTimer(); x.Note("new %s at fd %d", m.name, m.fd) }})
			}
			if !d.rdInfl {
				as = append(as, act{"fifo-read", func() {
					d.rdInfl = true
					d.fifo.AsyncRead(buf, func(err error, n int) {
						d.rdInfl = false
						x.Note("  fifo read cb %v %d", err, n)
						d.behave(nil)
					})
				}})
			}
			as = append(as, act{"peer-send", func() {
				syscall.Write(d.peer, []byte("x"))
				kern.AwaitReadReady(d.fifoFd, settleGuard)
			}})
			as = append(as, act{"poll", func() { d.poll() }})
			k := x.Pick(len(as)+1, "action")
			if k == 0 {
				break
			}
			x.Note("action %s", as[k-1].name)
			as[k-1].do()
			d.settle()
			d.checkScheduled(as[k-1].name)
		}
		if steps > 0 {
			x.Nontrivial()
		}
		// liveness: a scheduled timer whose timerfd the kernel reports expired runs within 2 polls
		type due struct {
			m     *mtimer
			fires int
			gen   int
		}
		var dues []due
		for _, m := range d.timers {
			if m.state == 1 && kern.Readable(m.fd) {
				dues = append(dues, due{m, m.fires, m.gen})
			}
		}
		d.poll()
		d.poll()
		for _, du := range dues {
			if du.m.state == 1 && du.m.gen == du.gen && du.m.fires == du.fires && !du.m.repeating {
				x.Fail("timer/expired-not-fired", "%s: the kernel reports the timerfd expired, two polls later the callback has not run", du.m.name)
			}
			if du.m.repeating && du.m.state == 1 && du.m.gen == du.gen && du.m.fires == du.fires {
				x.Fail("timer/expired-not-fired", "%s (repeating): expired, two polls later the callback has not run", du.m.name)
			}
		}
		d.settle()
		d.poll()
		d.checkScheduled("drain")
		fires := 0
		for _, m := range d.timers {
			fires += m.fires
		}
		x.Outcome(fmt.Sprintf("fires=%d states=%d%d", min(fires, 4), d.timers[0].state, d.timers[1].state))
	}
}

func c04DFS(tier string, st ioStage) *engine.DFS {
	return &engine.DFS{Name: stageName("timers", tier, st), Body: c04Body(st.depth), Procs: 16, WorkerProcs: 2, ShardDepth: 3, MaxDeviations: st.dev, MaxPoints: 100, HangTimeout: 20 * time.Second}
}

func C04(tier string) *engine.Report {
	rep := engine.NewReport("C04", tier, "exploration")
	var tot engine.DFSTotals
	done := runLadder(rep, &tot, tier, func(st ioStage) *engine.DFS { return c04DFS(tier, st) })
	if len(rep.Violations) == 0 {
		ares := c04ArmFailDFS(tier).Run()
		tot.Add(ares, rep)
		rep.Coverage["arm_failures"] = map[string]any{"executions": ares.Executions, "finished": ares.Exhaustive, "violations": len(ares.Violations),
			"space": "the poller refuses the timer's descriptor (EEXIST through a foreign registration | IO closed) x ScheduleOnce | ScheduleRepeating x fresh | fired-before timer; then the refusal is lifted and the call repeated"}
	}
	tot.Fill(rep, "all action sequences up to the depth bound over two (optionally three) real timers and a FIFO reader on one IO: ScheduleOnce/ScheduleRepeating with delays {<=0, 30us awaited to expiry on the timerfd, 10 s never due}, Cancel, Close, new timer, FIFO read, peer data, poll; "+
		"handler behaviours (cancel, close, cancel+re-arm, schedule on itself or the other timer) from timer and I/O callbacks are deviations, all combinations up to the bound; non-trivial = at least one action", 0)
	fillLadder(rep, done, len(rep.Violations) > 0)
	rep.Assumptions = append(rep.Assumptions, "timerfd readability (poll(2)) is trusted as 'the delay has passed'; never-early compares CLOCK_MONOTONIC before the scheduling call with callback entry, so it can only under-report")
	return rep
}

func C04Replay(v engine.Violation, log func(string)) *engine.Violation {
	if strings.HasPrefix(v.Config, "armfail@") {
		return c04ArmFailDFS(v.Config[len("armfail@"):]).ReplayChoices(v.Choices)
	}
	tier, st := parseStage(v.Config)
	return c04DFS(tier, st).ReplayChoices(v.Choices)
}
