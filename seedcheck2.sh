#!/bin/bash
# seedcheck.sh <Cxx> [tier] [more check ids...] — confirm an independently produced property-breaking change and run
# the checks against it.
#   1. fresh scratch worktree of /repo HEAD under /tmp/seedv: patch applies; the repository's suite passes with it
#      (affected packages + root); the demonstration FAILS with it and PASSES without it;
#   2. the patch is applied to /repo's working tree, the property's check is run (and any further ids given),
#      the tree is restored;
#   3. /verif/seeded/<id>/{patch.diff,demo_test.go,notes.md,meta.json} are written.
set -u
name="$1"; id="$2"; src="$3"; tier="${4:-quick}"; shift; shift; shift; shift 2>/dev/null
true
[ -f "$src/patch.diff" ] || src=/verif/seeded/$name
[ -f "$src/patch.diff" ] || { echo "no patch for $id"; exit 2; }
export GOFLAGS=-mod=mod GOPROXY=off
PHASE="${PHASE:-AB}"
pa=/verif/.scratch/phaseA-$name.txt
if [ "$PHASE" = B ]; then
  [ -f "$pa" ] || { echo "no phase A result for $name"; exit 2; }
  . "$pa"
else
wt=/tmp/seedv/$name
rm -rf "$wt"; git -C /repo worktree prune; git -C /repo worktree add -q --detach "$wt" HEAD || exit 2
place=$(head -1 "$src/demo_test.go" | sed -n 's|.*place in:[[:space:]]*||p' | tr -d '`' | awk '{print $1}')
[ -z "$place" ] && place=.
cd "$wt" || exit 2
git apply "$src/patch.diff" || { echo "PATCH DOES NOT APPLY"; cd /; git -C /repo worktree remove --force "$wt"; exit 3; }
files=$(git diff --name-only | tr '\n' ' ')
pkgs=$(git diff --name-only | xargs -n1 dirname | sort -u | sed 's|^|./|' | tr '\n' ' ')
# root/websocket tests bind fixed ports: run them in a private network namespace so that concurrent runs do not collide
suite_out=$(unshare -n sh -c "ip link set lo up; timeout 1500 go test -vet=off -count=1 -timeout 8m -skip 'TestCodecConn(Async)?WriteNext\$' . ./internal/... ./codec/... ./bytes/... ./util/... 2>&1")
# the two racy repository tests (they hang about one run in four on the unchanged tree) are retried on their own
racy=FAIL
for try in 1 2 3 4; do
  if unshare -n sh -c "ip link set lo up; timeout 200 go test -vet=off -count=1 -timeout 3m -run 'TestCodecConn(Async)?WriteNext\$' . >/dev/null 2>&1"; then racy=ok; break; fi
done
[ "$racy" = ok ] || suite_out="$suite_out
--- FAIL: TestCodecConnWriteNext/TestCodecConnAsyncWriteNext (4 attempts)"
if echo "$files" | grep -q 'multicast\|net/'; then
  suite_out="$suite_out
$(timeout 600 go test -vet=off -count=1 -timeout 8m ./multicast/... ./net/... 2>&1)"
fi
suite_fail=$(echo "$suite_out" | grep -- '--- FAIL' | grep -v 'TestUDPPeerIPv6_Addresses\|TestCloseFramePayloadCodec\|TestMaxMsgSizeAfterHandshake\|TestRead \|TestMono\|TestClientReconnectOnFailedRead\|TestTimerScheduleRepeatingAndCancel' | head -5)
cp "$src/demo_test.go" "$place/zz_seed_demo_test.go"
demo_with=$(timeout 300 go test -vet=off -count=1 -timeout 4m -run "$(grep -o 'func Test[A-Za-z0-9_]*' "$src/demo_test.go" | sed 's/func //' | paste -sd'|')" "./$place" 2>&1 | tail -3)
git stash -q -- $files 2>/dev/null || git checkout -q -- $files
demo_without=$(timeout 300 go test -vet=off -count=1 -timeout 4m -run "$(grep -o 'func Test[A-Za-z0-9_]*' "$src/demo_test.go" | sed 's/func //' | paste -sd'|')" "./$place" 2>&1 | tail -3)
cd /; git -C /repo worktree remove --force "$wt"; git -C /repo worktree prune
ok_with=no; echo "$demo_with" | grep -q '^FAIL\|--- FAIL\|panic:' && ok_with=yes
ok_without=no; echo "$demo_without" | grep -q '^ok' && ok_without=yes
printf 'files=%q\nsuite_fail=%q\nok_with=%q\nok_without=%q\n' "$files" "$suite_fail" "$ok_with" "$ok_without" > "$pa"
fi
echo "== $name ($id): files=[$files] suite_failures=[${suite_fail}] demo_fails_with_patch=$ok_with demo_passes_without=$ok_without"
[ "$PHASE" = A ] && exit 0
# run the checks against it
cd /repo || exit 2
[ -n "$(git status --porcelain)" ] && { echo "/repo not clean"; exit 2; }
git apply "$src/patch.diff" || { echo "patch does not apply to /repo"; exit 3; }
results=""
for c in "$id" "$@"; do
  out=$(cd /verif && timeout 1800 ./run.sh "$c" "$tier" 2>&1); rc=$?
  sigs=$(echo "$out" | grep -o 'sig=[^ ]*' | sort -u | head -6 | tr '\n' ' ')
  echo "   check $c $tier: rc=$rc $sigs"
  results="$results{\"check\":\"$c\",\"tier\":\"$tier\",\"exit\":$rc,\"signatures\":\"$sigs\"},"
done
git checkout -q -- . ; git status --porcelain | head -2
mkdir -p /verif/seeded/$name
[ "$src" != "/verif/seeded/$name" ] && cp "$src/patch.diff" "$src/demo_test.go" "$src/notes.md" /verif/seeded/$name/ 2>/dev/null
python3 - "$name" "$files" "$ok_with" "$ok_without" "${suite_fail}" "[${results%,}]" <<'PY'
import json,sys,datetime
name,files,w,wo,sf,res=sys.argv[1:7]; id=name[:3]
notes=open(f'/verif/seeded/{name}/notes.md').read() if True else ''
meta={"property":id,"files_changed":files.split(),"needs_to_manifest":"see notes.md (written by the author of the change)",
 "confirmed":{"suite_passes_with_change":sf=="","suite_failures":sf,"demo_fails_with_change":w=="yes","demo_passes_without_change":wo=="yes"},
 "checks_run":json.loads(res),"confirmed_at":datetime.datetime.utcnow().isoformat()+"Z",
 "how":"seedcheck.sh: scratch worktree of /repo HEAD, git apply, repository suite (skip racy TestCodecConnWriteNext), demonstration with and without the change; then git -C /repo apply, ./run.sh <id> <tier>, git checkout"}
json.dump(meta,open(f'/verif/seeded/{name}/meta.json','w'),indent=1)
PY
