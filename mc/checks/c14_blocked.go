package checks

// C14, family "blocked": the depth accounting when an operation started inline cannot finish inline. The cycle family
// pre-loads every object so that each step completes at once; the nested family parks reads and accepts. Here a WRITE
// is parked: a connection whose send buffer is full, or a FIFO whose pipe is full, gets an AsyncWrite / AsyncWriteAll
// from nesting depth 0, 1, 2 or 31 (that many inline writes on a second, writable connection come first, each issued
// from the previous one's callback). The write would-block and waits in the poller; the peer then drains and the poller
// completes it. After the start call has returned, after every poll, and at the end IO.Dispatched is 0; the callback
// runs exactly once; and a chain of 40 writes on the writable connection afterwards still nests to exactly
// MaxCallbackDispatch+1 and no deeper, with the first 32 completing inline (a leaked count would defer earlier).

import (
	"fmt"
	"syscall"
	"time"

	"github.com/talostrading/sonic"
	"golang.org/x/sys/unix"
	"verifmc/engine"
	"verifmc/kern"
)

func c14BlockedBody(x *engine.X) {
	kind := []string{"conn", "fifo"}[x.Pick(2, "object whose write blocks")]
	all := x.Pick(2, "AsyncWrite | AsyncWriteAll") == 1
	depth := []int{0, 1, 2, 31}[x.Pick(4, "nesting depth at which the blocked write is issued")]
	nblocked := 1 + x.Pick(2, "blocked writes one after the other")
	ioc, err := sonic.NewIO()
	if err != nil {
		engine.HarnessError("NewIO: %v", err)
	}
	var closers []func()
	x.Defer(func() {
		for _, c := range closers {
			c()
		}
		ioc.Close()
	})
	dial := func() (sonic.Conn, int) {
		lfd, addr, port, err := kern.TCPListener()
		if err != nil {
			engine.HarnessError("%v", err)
		}
		c, err := sonic.Dial(ioc, "tcp", kern.AddrString(addr, port))
		if err != nil {
			x.Inconclusive("dial: " + err.Error())
		}
		p, _ := kern.AcceptRaw(lfd, settleGuard)
		syscall.Close(lfd)
		closers = append(closers, func() {
			syscall.SetsockoptLinger(c.RawFd(), syscall.SOL_SOCKET, syscall.SO_LINGER, &syscall.Linger{Onoff: 1})
			c.Close()
			kern.Abort(p)
		})
		return c, p
	}
	easy, _ := dial() // always writable: 1-byte writes complete inline
	var blocked sonic.FileDescriptor
	var bfd, bpeer int
	if kind == "conn" {
		c, p := dial()
		fastFill(c.RawFd(), p)
		blocked, bfd, bpeer = c, c.RawFd(), p
	} else {
		r, w, _ := kern.Pipe(4096)
		f, err := sonic.Open(ioc, fmt.Sprintf("/proc/self/fd/%d", w), syscall.O_WRONLY|syscall.O_NONBLOCK, 0)
		syscall.Close(w)
		if err != nil {
			engine.HarnessError("Open: %v", err)
		}
		closers = append(closers, func() { f.Close(); syscall.Close(r) })
		syscall.SetNonblock(f.RawFd(), true)
		fillPipe(f.RawFd())
		syscall.SetNonblock(r, true)
		blocked, bfd, bpeer = f, f.RawFd(), r
	}
	if kern.WouldNotBlockWrite(bfd) {
		x.Inconclusive("the descriptor is still writable after filling it")
	}
	x.Note("blocked %s write (all=%v) issued %d levels deep, %d in a row", kind, all, depth, nblocked)
	x.Nontrivial()
	cur, maxD := 0, 0
	enter := func() {
		cur++
		if cur > maxD {
			maxD = cur
		}
	}
	for round := 0; round < nblocked; round++ {
		bcalls := 0
		var berr error
		bn := 0
		issueBlocked := func() {
			cb := func(err error, n int) { bcalls++; berr, bn = err, n }
			if all {
				blocked.AsyncWriteAll([]byte{1, 2, 3}, cb)
			} else {
				blocked.AsyncWrite([]byte{1, 2, 3}, cb)
			}
		}
		var step func(i int)
		step = func(i int) {
			if i == depth {
				issueBlocked()
				return
			}
			easy.AsyncWrite([]byte{0x55}, func(err error, n int) {
				enter()
				if err != nil || n != 1 {
					x.FailSoft("dispatch/blocked/prefix", "inline write %d completed with (%v,%d)", i, err, n)
				}
				step(i + 1)
				cur--
			})
		}
		step(0)
		if bcalls != 0 {
			x.Fail("dispatch/blocked/completed-while-full", "a write on a full %s completed at once: (%v,%d)", kind, berr, bn)
		}
		if ioc.Dispatched != 0 {
			x.Fail("dispatch/counter-not-zero-after-unwind", "a write on a full %s parked in the poller from %d levels deep (round %d): after the start call returned IO.Dispatched=%d", kind, depth, round+1, ioc.Dispatched)
		}
		// the peer drains; the poller completes the write
		dl := time.Now().Add(settleGuard)
		for !kern.WouldNotBlockWrite(bfd) && time.Now().Before(dl) {
			drainAll(bpeer)
			kern.Poll(bfd, unix.POLLOUT, 2)
		}
		for polls := 0; polls < 12 && bcalls == 0; polls++ {
			ioc.PollOne()
			if ioc.Dispatched != 0 {
				x.Fail("dispatch/counter-not-zero-after-unwind", "a blocked %s write completed by the poller (round %d): after PollOne returned IO.Dispatched=%d", kind, round+1, ioc.Dispatched)
			}
		}
		if bcalls != 1 || berr != nil || bn != 3 {
			x.Fail("dispatch/chain-element-not-once", "the write that waited for room on the %s: callback ran %d times, (%v,%d)", kind, bcalls, berr, bn)
		}
		if round+1 < nblocked {
			// fill it again for the next round
			if kind == "conn" {
				fastFill(bfd, bpeer)
			} else {
				fillPipe(bfd)
			}
			if kern.WouldNotBlockWrite(bfd) {
				x.Inconclusive("the descriptor is still writable after re-filling it")
			}
		}
	}
	// a chain of 40 inline writes afterwards: the limit is where it always was
	cur, maxD = 0, 0
	done, inlineBeforeReturn := 0, 0
	var chain func(i int)
	chain = func(i int) {
		if i == 40 {
			return
		}
		easy.AsyncWrite([]byte{0x66}, func(err error, n int) {
			enter()
			done++
			chain(i + 1)
			cur--
		})
	}
	chain(0)
	inlineBeforeReturn = done
	for polls := 0; polls < 12 && done < 40; polls++ {
		ioc.PollOne()
	}
	if maxD > sonic.MaxCallbackDispatch+1 {
		x.Fail("dispatch/nesting-exceeds-limit", "after the blocked write: %d completion callbacks were on the stack, limit is %d+1", maxD, sonic.MaxCallbackDispatch)
	}
	if inlineBeforeReturn != sonic.MaxCallbackDispatch {
		x.Fail("dispatch/limit-shifted", "after %d blocked write(s) a chain of 40 inline writes completed %d of them before its start call returned; with the depth accounting at zero it is %d", nblocked, inlineBeforeReturn, sonic.MaxCallbackDispatch)
	}
	if done != 40 {
		x.Fail("dispatch/chain-incomplete", "%d of 40 chained writes completed", done)
	}
	if ioc.Dispatched != 0 {
		x.Fail("dispatch/counter-not-zero-after-unwind", "at the end IO.Dispatched=%d", ioc.Dispatched)
	}
	x.Outcome(fmt.Sprintf("blocked/%s/%v/%d", kind, all, depth))
}

// fillPipe fills a non-blocking pipe to the last byte: page-sized writes until the kernel refuses, then single bytes (a
// small write still merges into the last, partly used page when no whole slot is free).
func fillPipe(fd int) {
	page := make([]byte, 4096)
	for {
		if _, err := syscall.Write(fd, page); err != nil {
			break
		}
	}
	for {
		if _, err := syscall.Write(fd, page[:1]); err != nil {
			break
		}
	}
}

func c14BlockedDFS(tier string) *engine.DFS {
	return &engine.DFS{Name: "blocked@" + tier, Body: c14BlockedBody, Procs: 8, WorkerProcs: 1, ShardDepth: 2, MaxDeviations: 0, MaxPoints: 30, HangTimeout: 60 * time.Second}
}
