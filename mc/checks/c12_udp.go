package checks

// C12 — UDP datagram boundaries, addressing and multicast membership.
//
// Engine E1 over real sockets.
//  boundary/…  every datagram size 1..1472 plus {1473, 4096, 9000, 65507} on loopback, to a packet conn and to
//              a multicast peer, buffer {shorter, exact, longer}, read started before / after arrival, inline /
//              forced-deferred; bursts of <= 3 datagrams from <= 2 sender sockets in every order; writes of the
//              same sizes received by a raw socket. One read per datagram, exact bytes (truncated to the
//              buffer), n, sender IP and port; each write = exactly one datagram with the caller's bytes.
//  member/…    sequences (depth 3 quick / 4 thorough) of Join, JoinSource, Leave, LeaveSource, BlockSource,
//              UnblockSource over two groups and two sources (the interface's own address, which really sends,
//              and one that never does); the model (none | any-source minus blocked | only listed sources) is
//              updated only on calls that returned nil; after every call one probe datagram per group is sent,
//              then a fence datagram to a third group joined by a harness socket on the same port; a verdict is
//              taken only after the fence arrived. Delivered <=> the model says so.
//  getter/…    sequences (depth <= 3) of SetLoop/SetTTL/SetOutboundIPv4/SetAll for every bind form ("", ":0",
//              interface address, multicast address); Loop/TTL/Outbound/LocalAddr compared with getsockopt /
//              getsockname on the descriptor.
//  buffer/…    SetAsyncReadBuffer between AsyncRead and arrival: the datagram lands in the latest buffer only.

import (
	"fmt"
	"net"
	"net/netip"
	"os"
	"syscall"
	"time"
	"unsafe"

	"github.com/talostrading/sonic"
	"github.com/talostrading/sonic/multicast"
	"golang.org/x/sys/unix"
	"verifmc/engine"
	"verifmc/kern"
)

func mcastInterface() (name string, addr [4]byte, ok bool) {
	ifs, _ := net.Interfaces()
	for _, i := range ifs {
		if i.Flags&net.FlagUp == 0 || i.Flags&net.FlagMulticast == 0 || i.Flags&net.FlagLoopback != 0 {
			continue
		}
		as, _ := i.Addrs()
		for _, a := range as {
			if n, k := a.(*net.IPNet); k && n.IP.To4() != nil {
				copy(addr[:], n.IP.To4())
				return i.Name, addr, true
			}
		}
	}
	return "", addr, false
}

func dgram(seed, n int) []byte {
	b := make([]byte, n)
	for i := range b {
		b[i] = byte(i*11 + seed*29 + 1)
	}
	return b
}

func sendtoRetry(fd int, b []byte, sa syscall.Sockaddr) error {
	var err error
	for i := 0; i < 200; i++ {
		err = syscall.Sendto(fd, b, 0, sa)
		if err != syscall.EAGAIN && err != syscall.ENOBUFS {
			return err
		}
		kern.Poll(fd, unix.POLLOUT, 2)
	}
	return err
}

// ---- boundary ---------------------------------------------------------------------------------------

func c12Sizes(tier string) []int {
	var s []int
	step := 1
	for n := 1; n <= 1472; n += step {
		s = append(s, n)
	}
	return append(s, 1473, 4096, 9000, 65507)
}

func c12Boundary(x *engine.X, tier string) {
	ioc, err := sonic.NewIO()
	if err != nil {
		engine.HarnessError("NewIO: %v", err)
	}
	x.Defer(func() { ioc.Close() })
	target := x.Pick(2, "packet conn / multicast peer")
	dir := x.Pick(2, "read / write")
	sizes := c12Sizes(tier)
	n := sizes[x.Pick(len(sizes), "datagram size")]
	raw, rawPort, _ := kern.UDPSocket()
	syscall.SetsockoptInt(raw, syscall.SOL_SOCKET, syscall.SO_RCVBUF, 1<<20)
	x.Defer(func() { syscall.Close(raw) })
	var pc sonic.PacketConn
	var mp *multicast.UDPPeer
	var fd, port int
	if target == 0 {
		pc, err = sonic.NewPacketConn(ioc, "udp", "127.0.0.1:0")
		if err != nil {
			engine.HarnessError("NewPacketConn: %v", err)
		}
		x.Defer(func() { pc.Close() })
		fd = pc.RawFd()
	} else {
		mp, err = newOwnPeer(ioc, "127.0.0.1")
		if err != nil {
			engine.HarnessError("NewUDPPeer: %v", err)
		}
		x.Defer(func() { mp.Close() })
		fd = mp.NextLayer().RawFd()
	}
	syscall.SetsockoptInt(fd, syscall.SOL_SOCKET, syscall.SO_RCVBUF, 1<<20)
	sa, _ := syscall.Getsockname(fd)
	port = sa.(*syscall.SockaddrInet4).Port
	x.Nontrivial()
	if dir == 1 {
		// one write = one datagram with exactly the caller's bytes
		payload := dgram(3, n)
		calls := 0
		var werr error
		syncWrite := x.Pick(2, "asynchronous / blocking write") == 1
		forced := !syncWrite && x.Deviate(2, "forced-deferred") == 1
		if forced {
			ioc.Dispatched = sonic.MaxCallbackDispatch
		}
		// destination forms: plain IPv4 or IPv4-mapped (what net.UDPAddr.AddrPort() yields); and, to expose a
		// destination remembered from an earlier write, a first write to ANOTHER address (127.0.0.2) of a second
		// raw socket
		mapped := x.Pick(2, "destination form plain/IPv4-mapped") == 1
		dst := netip.AddrFrom4([4]byte{127, 0, 0, 1})
		if mapped {
			dst = netip.AddrFrom16(dst.As16())
		}
		var shared *net.UDPAddr
		if x.Deviate(2, "an earlier write to another destination") == 1 {
			o, _ := syscall.Socket(syscall.AF_INET, syscall.SOCK_DGRAM|syscall.SOCK_CLOEXEC|syscall.SOCK_NONBLOCK, 0)
			syscall.Bind(o, &syscall.SockaddrInet4{Addr: [4]byte{127, 0, 0, 2}})
			x.Defer(func() { syscall.Close(o) })
			osa, _ := syscall.Getsockname(o)
			oport := osa.(*syscall.SockaddrInet4).Port
			first := dgram(8, 5)
			fc := 0
			if target == 0 {
				// the caller may well keep one address object and refill it for every datagram it sends
				fa := &net.UDPAddr{IP: net.IPv4(127, 0, 0, 2), Port: oport}
				if x.Pick(2, "the two writes use: separate address objects | one object changed in place") == 1 {
					shared = fa
				}
				pc.AsyncWriteTo(first, fa, func(err error) { fc++ })
			} else {
				mp.AsyncWrite(first, netip.AddrPortFrom(netip.AddrFrom4([4]byte{127, 0, 0, 2}), uint16(oport)), func(err error, m int) { fc++ })
			}
			for i := 0; i < 3 && fc == 0; i++ {
				ioc.PollOne()
			}
			if !kern.AwaitReadReady(o, settleGuard) {
				x.Fail("udp.write/no-datagram", "the first write (to 127.0.0.2) produced no datagram there")
			}
			fb := make([]byte, 64)
			if m, _, _ := syscall.Recvfrom(o, fb, 0); m != 5 || string(fb[:5]) != string(first) {
				x.Fail("udp.write/datagram-bytes", "the first write (to 127.0.0.2) arrived as %d bytes", m)
			}
			x.Defer(func() {
				if kern.WouldNotBlockRead(o) && !x.Failed() {
					x.FailSoft("udp.write/wrong-destination", "a datagram written to 127.0.0.1 arrived at the destination of an earlier write (127.0.0.2)")
				}
			})
		}
		if target == 0 {
			ua := &net.UDPAddr{IP: net.IPv4(127, 0, 0, 1), Port: rawPort}
			if !mapped {
				ua.IP = ua.IP.To4()
			}
			if shared != nil {
				shared.IP, shared.Port = ua.IP, ua.Port
				ua = shared
			}
			if syncWrite {
				werr = pc.WriteTo(payload, ua)
				calls = 1
			} else {
				pc.AsyncWriteTo(payload, ua, func(err error) { calls++; werr = err })
			}
		} else if syncWrite {
			m, err := mp.Write(payload, netip.AddrPortFrom(dst, uint16(rawPort)))
			calls, werr = 1, err
			if err == nil && m != n {
				x.Fail("udp.write/count", "Write of %d bytes reported n=%d", n, m)
			}
		} else {
			mp.AsyncWrite(payload, netip.AddrPortFrom(dst, uint16(rawPort)), func(err error, m int) {
				calls++
				werr = err
				if err == nil && m != n {
					x.Fail("udp.write/count", "AsyncWrite of %d bytes reported n=%d", n, m)
				}
			})
		}
		ioc.Dispatched = 0
		for i := 0; i < 3 && calls == 0; i++ {
			ioc.PollOne()
		}
		x.Note("write %d bytes target=%d forced=%v -> calls=%d err=%v", n, target, forced, calls, werr)
		if calls != 1 || werr != nil {
			x.Fail("udp.write/completion", "write of %d bytes: callbacks=%d err=%v", n, calls, werr)
		}
		if !kern.AwaitReadReady(raw, 300*time.Millisecond) {
			x.Fail("udp.write/no-datagram", "write of %d bytes to 127.0.0.1:%d (mapped form: %v) reported success but no datagram arrived there", n, rawPort, mapped)
		}
		buf := make([]byte, 70000)
		m, from, err := syscall.Recvfrom(raw, buf, 0)
		if err != nil || m != n || string(buf[:m]) != string(payload) {
			x.Fail("udp.write/datagram-bytes", "write of %d bytes arrived as a datagram of %d bytes (err=%v), contents equal=%v", n, m, err, string(buf[:max(m, 0)]) == string(payload))
		}
		if f4, ok := from.(*syscall.SockaddrInet4); !ok || f4.Port != port {
			x.Fail("udp.write/source", "datagram came from %v, the object is bound to port %d", from, port)
		}
		if kern.WouldNotBlockRead(raw) {
			x.Fail("udp.write/extra-datagram", "one write of %d bytes produced more than one datagram", n)
		}
		x.Outcome(fmt.Sprintf("write/target%d", target))
		return
	}
	// reads
	bufKind := x.Pick(3, "buffer shorter/exact/longer")
	bl := n
	switch bufKind {
	case 0:
		bl = n - 1
		if bl == 0 {
			bl = 1
		}
	case 2:
		bl = n + 7
	}
	burst := 1 + x.Deviate(3, "burst size")
	raw2 := raw
	var raw2Port = rawPort
	// (a free choice once there is a burst: "which sender" must not cost the deviation the burst itself already took)
	if burst > 1 && x.Pick(2, "second sender socket") == 1 {
		raw2, raw2Port, _ = kern.UDPSocket()
		fd2 := raw2
		x.Defer(func() { syscall.Close(fd2) })
	}
	// API variant: packet conn AsyncReadFrom / AsyncReadAllFrom / blocking ReadFrom; peer AsyncRead / blocking Read
	// (the blocking calls are made once the datagram is there)
	apiN := 2
	if target == 0 {
		apiN = 3
	}
	api := x.Pick(apiN, "read API variant")
	readAll := target == 0 && api == 1
	syncRead := (target == 0 && api == 2) || (target == 1 && api == 1)
	before := !syncRead && x.Deviate(2, "read started before arrival") == 1
	forced := !syncRead && x.Deviate(2, "forced-deferred") == 1
	type got struct {
		n    int
		from string
		err  error
		data []byte
		addr net.Addr // the object the read handed out (packet conn): it is the caller's from then on
	}
	var gots []got
	// the caller's buffer: a slice of its own, or a window into a larger array (len < cap) guarded by canaries —
	// "truncated to the buffer" is about the slice's length, not its capacity
	window := x.Deviate(2, "the buffer is a window into a larger array") == 1
	var issue func()
	issue = func() {
		buf := make([]byte, bl)
		var arena []byte
		if window {
			arena = make([]byte, bl+48)
			for i := range arena {
				arena[i] = 0xC7
			}
			buf = arena[16 : 16+bl]
		}
		checkCanary := func(m int) {
			if m > len(buf) {
				x.Fail("udp.read/count-exceeds-buffer", "a read into a %d-byte buffer (capacity %d) reported n=%d", len(buf), cap(buf), m)
			}
			for i, c := range arena {
				if (i < 16 || i >= 16+bl) && c != 0xC7 {
					x.Fail("udp.read/wrote-outside-buffer", "a read into a %d-byte window of a larger array changed byte %d of the array, outside the window [16,%d)", bl, i, 16+bl)
				}
			}
		}
		calls := 0
		if syncRead {
			if target == 0 {
				m, from, err := pc.ReadFrom(buf)
				checkCanary(m)
				f := ""
				if from != nil {
					f = from.String()
				}
				gots = append(gots, got{m, f, err, append([]byte{}, buf[:max(0, min(m, len(buf)))]...), from})
			} else {
				m, from, err := mp.Read(buf)
				checkCanary(m)
				gots = append(gots, got{m, from.String(), err, append([]byte{}, buf[:max(0, min(m, len(buf)))]...), nil})
			}
			return
		}
		if forced {
			ioc.Dispatched = sonic.MaxCallbackDispatch
		}
		if target == 0 {
			rd := pc.AsyncReadFrom
			if readAll {
				rd = pc.AsyncReadAllFrom
			}
			rd(buf, func(err error, m int, from net.Addr) {
				checkCanary(m)
				calls++
				if calls > 1 {
					x.Fail("udp.read/callback-twice", "callback ran %d times", calls)
				}
				f := ""
				if from != nil {
					f = from.String()
				}
				gots = append(gots, got{m, f, err, append([]byte{}, buf[:max(0, min(m, len(buf)))]...), from})
			})
		} else {
			mp.AsyncRead(buf, func(err error, m int, from netip.AddrPort) {
				checkCanary(m)
				calls++
				if calls > 1 {
					x.Fail("udp.read/callback-twice", "callback ran %d times", calls)
				}
				gots = append(gots, got{m, from.String(), err, append([]byte{}, buf[:max(0, min(m, len(buf)))]...), nil})
			})
		}
		ioc.Dispatched = 0
	}
	if before {
		issue()
	}
	type sentT struct {
		payload []byte
		from    string
	}
	var sent []sentT
	for i := 0; i < burst; i++ {
		s, sp := raw, rawPort
		if i%2 == 1 {
			s, sp = raw2, raw2Port
		}
		p := dgram(i+1, n)
		if err := sendtoRetry(s, p, &syscall.SockaddrInet4{Addr: [4]byte{127, 0, 0, 1}, Port: port}); err != nil {
			x.Inconclusive("sendto: " + err.Error())
		}
		sent = append(sent, sentT{p, fmt.Sprintf("127.0.0.1:%d", sp)})
	}
	if !kern.AwaitReadReady(fd, settleGuard) {
		x.Inconclusive("datagram did not arrive")
	}
	for len(gots) < burst {
		had := len(gots)
		if !before || had > 0 {
			issue()
		}
		before = false
		for i := 0; i < 3 && len(gots) == had; i++ {
			ioc.PollOne()
		}
		if len(gots) == had {
			x.Fail("udp.read/datagram-not-delivered", "%d datagrams of %d bytes were sent, read %d did not complete after 3 polls", burst, n, had)
		}
	}
	x.Note("read size=%d buf=%d burst=%d target=%d forced=%v window=%v readAll=%v", n, bl, burst, target, forced, window, readAll)
	for i, g := range gots {
		want := sent[i].payload
		if len(want) > bl {
			want = want[:bl]
		}
		if g.err != nil {
			x.Fail("udp.read/error", "datagram %d of %d bytes into a %d-byte buffer: %v", i, n, bl, g.err)
		}
		if g.n != len(want) || string(g.data) != string(want) {
			x.Fail("udp.read/datagram-bytes", "datagram %d of %d bytes into a %d-byte buffer: n=%d, expected %d; bytes equal=%v", i, n, bl, g.n, len(want), string(g.data) == string(want))
		}
		if g.from != sent[i].from {
			x.Fail("udp.read/sender-address", "datagram %d came from %s, reported as %q", i, sent[i].from, g.from)
		}
		// the address a read reported stays what it was: looked at again after all later reads have completed
		if g.addr != nil && g.addr.String() != sent[i].from {
			x.Fail("udp.read/sender-address-changed-later", "datagram %d came from %s and was reported so; after the later reads the same net.Addr says %s (it is shared between reads)", i, sent[i].from, g.addr.String())
		}
	}
	if kern.WouldNotBlockRead(fd) {
		x.Fail("udp.read/phantom-datagram", "more datagrams are queued than were sent")
	}
	x.Outcome(fmt.Sprintf("read/target%d/buf%d/burst%d", target, bufKind, burst))
}

// ---- membership -------------------------------------------------------------------------------------

// c12Member is differential: a reference socket bound to the same port receives the same sequence of
// membership requests through raw setsockopt calls issued by the harness (struct ip_mreq / ip_mreq_source
// written out by hand). Linux membership semantics have corners (mode switches on empty filters, failed
// calls that still change the filter) that a hand-written model would have to replicate; the reference
// socket IS the kernel's semantics. Oracle: every call succeeds/fails like its raw counterpart, and after
// every call a probe datagram to each group is delivered to the peer <=> it is delivered to the reference
// socket; a group never successfully joined is never delivered.
func rawMreqSource(fd, opt int, g, src [4]byte) error {
	var m [12]byte
	copy(m[0:4], g[:])
	copy(m[8:12], src[:])
	_, _, e := syscall.Syscall6(syscall.SYS_SETSOCKOPT, uintptr(fd), uintptr(syscall.IPPROTO_IP), uintptr(opt), uintptr(unsafe.Pointer(&m[0])), 12, 0)
	if e != 0 {
		return e
	}
	return nil
}

func ip4(s string) (a [4]byte) {
	copy(a[:], net.ParseIP(s).To4())
	return
}

func c12Member(x *engine.X, depth int) {
	_, ifaddr, ok := mcastInterface()
	if !ok {
		x.Inconclusive("no multicast-capable interface in this sandbox")
	}
	ioc, err := sonic.NewIO()
	if err != nil {
		engine.HarnessError("NewIO: %v", err)
	}
	x.Defer(func() { ioc.Close() })
	p, err := newOwnPeer(ioc, "")
	if err != nil {
		engine.HarnessError("NewUDPPeer: %v", err)
	}
	x.Defer(func() { p.Close() })
	pfd := p.NextLayer().RawFd()
	port := p.LocalAddr().Port
	// administratively scoped groups private to this worker process (see ownPort)
	pid := os.Getpid()
	groups := []string{fmt.Sprintf("239.%d.%d.77", (pid>>8)&255, pid&255), fmt.Sprintf("239.%d.%d.78", (pid>>8)&255, pid&255)}
	fenceGroup := [4]byte{239, byte(pid >> 8), byte(pid), 99}
	realSrc := fmt.Sprintf("%d.%d.%d.%d", ifaddr[0], ifaddr[1], ifaddr[2], ifaddr[3])
	sources := []string{realSrc, "192.0.2.99"}
	mk := func() int {
		fd, _ := syscall.Socket(syscall.AF_INET, syscall.SOCK_DGRAM|syscall.SOCK_NONBLOCK|syscall.SOCK_CLOEXEC, 0)
		syscall.SetsockoptInt(fd, syscall.SOL_SOCKET, syscall.SO_REUSEADDR, 1)
		syscall.SetsockoptInt(fd, syscall.SOL_SOCKET, unix.SO_REUSEPORT, 1)
		syscall.SetsockoptInt(fd, syscall.IPPROTO_IP, 49 /* IP_MULTICAST_ALL */, 0)
		if err := syscall.Bind(fd, &syscall.SockaddrInet4{Port: port}); err != nil {
			x.Inconclusive("bind on the peer's port: " + err.Error())
		}
		x.Defer(func() { syscall.Close(fd) })
		return fd
	}
	ffd := mk() // fence socket
	if err := syscall.SetsockoptIPMreq(ffd, syscall.IPPROTO_IP, syscall.IP_ADD_MEMBERSHIP, &syscall.IPMreq{Multiaddr: fenceGroup, Interface: ifaddr}); err != nil {
		x.Inconclusive("fence join: " + err.Error())
	}
	rfd := mk() // reference socket
	sfd, _ := syscall.Socket(syscall.AF_INET, syscall.SOCK_DGRAM|syscall.SOCK_NONBLOCK|syscall.SOCK_CLOEXEC, 0)
	x.Defer(func() { syscall.Close(sfd) })
	syscall.SetsockoptInet4Addr(sfd, syscall.IPPROTO_IP, syscall.IP_MULTICAST_IF, ifaddr)
	syscall.SetsockoptInt(sfd, syscall.IPPROTO_IP, syscall.IP_MULTICAST_LOOP, 1)
	syscall.Bind(sfd, &syscall.SockaddrInet4{Addr: ifaddr})

	everJoined := map[string]bool{}
	seq := 0
	delivered := [2]int{}
	probe := func(after string) {
		for gi, g := range groups {
			seq++
			payload := []byte(fmt.Sprintf("g%d-%d", gi, seq))
			if err := sendtoRetry(sfd, payload, &syscall.SockaddrInet4{Addr: ip4(g), Port: port}); err != nil {
				x.Inconclusive("probe sendto: " + err.Error())
			}
			if err := sendtoRetry(sfd, []byte("fence"), &syscall.SockaddrInet4{Addr: fenceGroup, Port: port}); err != nil {
				x.Inconclusive("fence sendto: " + err.Error())
			}
			if !kern.AwaitReadReady(ffd, settleGuard) {
				x.Inconclusive("fence datagram did not arrive")
			}
			fb := make([]byte, 16)
			syscall.Recvfrom(ffd, fb, 0)
			want := kern.WouldNotBlockRead(rfd)
			if want {
				rb := make([]byte, 32)
				syscall.Recvfrom(rfd, rb, 0)
			}
			got := kern.WouldNotBlockRead(pfd)
			if got {
				delivered[1]++
			} else {
				delivered[0]++
			}
			if got && !everJoined[g] {
				x.Fail("mcast/delivered-although-never-joined", "after %s: a datagram to %s was delivered although no join of that group ever succeeded", after, g)
			}
			if got != want {
				sig := "mcast/delivered-although-not-member"
				if want {
					sig = "mcast/not-delivered-although-member"
				}
				x.Fail(sig, "after %s: datagram from %s to %s delivered to the peer=%v, but to a reference socket that received the same requests by raw setsockopt=%v", after, realSrc, g, got, want)
			}
			if got {
				buf := make([]byte, 32)
				calls := 0
				p.AsyncRead(buf, func(err error, n int, from netip.AddrPort) {
					calls++
					if err != nil || string(buf[:n]) != string(payload) || from.Addr().String() != realSrc {
						x.Fail("mcast/probe-datagram", "read after %s: err=%v payload=%q from=%v, sent %q from %s", after, err, buf[:n], from, payload, realSrc)
					}
				})
				if calls != 1 {
					x.Fail("mcast/probe-read", "a datagram is queued but AsyncRead did not complete inline (callbacks %d)", calls)
				}
				if kern.WouldNotBlockRead(pfd) {
					x.Fail("mcast/duplicate-delivery", "one datagram to %s was delivered more than once", g)
				}
			}
		}
	}
	type mop struct {
		name string
		do   func() error
		raw  func() error
		join bool
		g    string
	}
	var names []string
	for step := 0; step < depth; step++ {
		var ops []mop
		for _, g := range groups {
			g := g
			ga := ip4(g)
			ops = append(ops, mop{"Join(" + g + ")", func() error { return p.Join(multicast.IP(g)) },
				func() error {
					return syscall.SetsockoptIPMreq(rfd, syscall.IPPROTO_IP, syscall.IP_ADD_MEMBERSHIP, &syscall.IPMreq{Multiaddr: ga})
				}, true, g})
			ops = append(ops, mop{"Leave(" + g + ")", func() error { return p.Leave(multicast.IP(g)) },
				func() error {
					return syscall.SetsockoptIPMreq(rfd, syscall.IPPROTO_IP, syscall.IP_DROP_MEMBERSHIP, &syscall.IPMreq{Multiaddr: ga})
				}, false, g})
			for _, s := range sources {
				s := s
				sa := ip4(s)
				ops = append(ops,
					mop{"JoinSource(" + g + "," + s + ")", func() error { return p.JoinSource(multicast.IP(g), multicast.SourceIP(s)) },
						func() error { return rawMreqSource(rfd, syscall.IP_ADD_SOURCE_MEMBERSHIP, ga, sa) }, true, g},
					mop{"LeaveSource(" + g + "," + s + ")", func() error { return p.LeaveSource(multicast.IP(g), multicast.SourceIP(s)) },
						func() error { return rawMreqSource(rfd, syscall.IP_DROP_SOURCE_MEMBERSHIP, ga, sa) }, false, g},
					mop{"BlockSource(" + g + "," + s + ")", func() error { return p.BlockSource(multicast.IP(g), multicast.SourceIP(s)) },
						func() error { return rawMreqSource(rfd, syscall.IP_BLOCK_SOURCE, ga, sa) }, false, g},
					mop{"UnblockSource(" + g + "," + s + ")", func() error { return p.UnblockSource(multicast.IP(g), multicast.SourceIP(s)) },
						func() error { return rawMreqSource(rfd, syscall.IP_UNBLOCK_SOURCE, ga, sa) }, false, g},
				)
			}
		}
		k := x.Pick(len(ops)+1, "membership call")
		if k == 0 {
			break
		}
		op := ops[k-1]
		err := op.do()
		rerr := op.raw()
		names = append(names, op.name)
		x.Note("%s -> %v (raw: %v)", op.name, err, rerr)
		if (err == nil) != (rerr == nil) {
			x.Fail("mcast/call-result-differs", "%s returned %v, the same request by raw setsockopt on the reference socket returned %v (history %v)", op.name, err, rerr, names)
		}
		if err == nil && op.join {
			everJoined[op.g] = true
		}
		probe(op.name)
	}
	if len(names) == 0 {
		probe("construction")
	} else {
		x.Nontrivial()
	}
	x.Outcome(fmt.Sprintf("member/%d calls/delivered=%v", len(names), delivered[1] > 0))
}

// ---- getters ----------------------------------------------------------------------------------------

func c12Getters(x *engine.X) {
	ifn, ifaddr, ok := mcastInterface()
	ioc, err := sonic.NewIO()
	if err != nil {
		engine.HarnessError("NewIO: %v", err)
	}
	x.Defer(func() { ioc.Close() })
	forms := []string{fmt.Sprintf(":%d", ownPort()), "", fmt.Sprintf("127.0.0.1:%d", ownPort())}
	if ok {
		forms = append(forms, fmt.Sprintf("%d.%d.%d.%d:0", ifaddr[0], ifaddr[1], ifaddr[2], ifaddr[3]), "224.0.1.80:0")
	}
	form := forms[x.Pick(len(forms), "bind form")]
	if form == "" {
		form = fmt.Sprintf(":%d", ownPort())
	}
	p, err := multicast.NewUDPPeer(ioc, "udp", form)
	if err != nil {
		x.Inconclusive("NewUDPPeer(" + form + "): " + err.Error())
	}
	x.Defer(func() { p.Close() })
	fd := p.NextLayer().RawFd()
	loopSet := false
	loopAtConstruction := ""
	compare := func(after string) {
		sa, _ := syscall.Getsockname(fd)
		s4 := sa.(*syscall.SockaddrInet4)
		la := p.LocalAddr()
		if la.Port != s4.Port || !la.IP.Equal(net.IP(s4.Addr[:])) {
			x.Fail("mcast.LocalAddr/getter-vs-kernel", "after %s LocalAddr()=%v, getsockname says %v:%d", after, la, net.IP(s4.Addr[:]), s4.Port)
		}
		ttl, _ := syscall.GetsockoptInt(fd, syscall.IPPROTO_IP, syscall.IP_MULTICAST_TTL)
		if int(p.TTL()) != ttl {
			x.Fail("mcast.TTL/getter-vs-kernel", "after %s TTL()=%d, kernel IP_MULTICAST_TTL=%d", after, p.TTL(), ttl)
		}
		loop, _ := syscall.GetsockoptInt(fd, syscall.IPPROTO_IP, syscall.IP_MULTICAST_LOOP)
		if p.Loop() != (loop != 0) {
			if loopSet {
				x.Fail("mcast.Loop/after-set/getter-vs-kernel", "after %s Loop()=%v, kernel IP_MULTICAST_LOOP=%d", after, p.Loop(), loop)
			}
			// before the first SetLoop the getter is judged at the end of the execution, so that this
			// (known) mismatch does not hide what the setters do
			loopAtConstruction = fmt.Sprintf("Loop()=%v, kernel IP_MULTICAST_LOOP=%d", p.Loop(), loop)
		}
		mif, _ := syscall.GetsockoptInet4Addr(fd, syscall.IPPROTO_IP, syscall.IP_MULTICAST_IF)
		oif, oip := p.Outbound()
		if oip.IsValid() && oip.As4() != mif {
			x.Fail("mcast.Outbound/getter-vs-kernel", "after %s Outbound() reports %v, kernel IP_MULTICAST_IF=%v", after, oip, net.IP(mif[:]))
		}
		// the two halves of the answer describe the same thing: no interface means the kernel's default (0.0.0.0); an
		// interface means one that owns the address the kernel sends from
		if oif == nil && mif != [4]byte{} {
			x.Fail("mcast.Outbound/interface-vs-kernel", "after %s Outbound() reports no interface (address %v) but the kernel's IP_MULTICAST_IF is %v", after, oip, net.IP(mif[:]))
		}
		if oif != nil {
			owns := false
			addrs, _ := oif.Addrs()
			for _, a := range addrs {
				if ipn, isnet := a.(*net.IPNet); isnet && ipn.IP.To4() != nil && [4]byte(ipn.IP.To4()) == mif {
					owns = true
				}
			}
			if !owns {
				x.Fail("mcast.Outbound/interface-vs-kernel", "after %s Outbound() reports interface %s, which does not own the kernel's IP_MULTICAST_IF %v", after, oif.Name, net.IP(mif[:]))
			}
		}
		all, _ := syscall.GetsockoptInt(fd, syscall.IPPROTO_IP, 49)
		if p.All() != (all != 0) {
			x.Fail("mcast.All/getter-vs-kernel", "after %s All()=%v, kernel IP_MULTICAST_ALL=%d", after, p.All(), all)
		}
	}
	compare("construction")
	var names []string
	for step := 0; step < 3; step++ {
		type sop struct {
			name string
			do   func() error
		}
		ops := []sop{
			{"SetLoop(true)", func() error { loopSet = true; return p.SetLoop(true) }},
			{"SetLoop(false)", func() error { loopSet = true; return p.SetLoop(false) }},
			{"SetTTL(0)", func() error { return p.SetTTL(0) }},
			{"SetTTL(5)", func() error { return p.SetTTL(5) }},
			{"SetTTL(255)", func() error { return p.SetTTL(255) }},
			{"SetAll(true)", func() error { return p.SetAll(true) }},
			{"SetAll(false)", func() error { return p.SetAll(false) }},
			{"SetOutboundIPv4(lo)", func() error { return p.SetOutboundIPv4("lo") }},
			{"SetOutboundIPv4(nosuchif0)", func() error { return p.SetOutboundIPv4("nosuchif0") }},
		}
		if ok {
			ops = append(ops, sop{"SetOutboundIPv4(" + ifn + ")", func() error {
				err := p.SetOutboundIPv4(ifn)
				if err == nil {
					mif, _ := syscall.GetsockoptInet4Addr(fd, syscall.IPPROTO_IP, syscall.IP_MULTICAST_IF)
					if mif != ifaddr {
						x.Fail("mcast.Outbound/set/kernel-not-updated", "SetOutboundIPv4(%s) returned nil but the kernel's IP_MULTICAST_IF is %v, the interface address is %v", ifn, net.IP(mif[:]), net.IP(ifaddr[:]))
					}
				}
				return err
			}})
		}
		k := x.Pick(len(ops)+1, "setter")
		if k == 0 {
			break
		}
		err := ops[k-1].do()
		names = append(names, ops[k-1].name)
		x.Note("%s -> %v", ops[k-1].name, err)
		compare(ops[k-1].name)
	}
	if len(names) > 0 {
		x.Nontrivial()
	}
	x.Outcome(fmt.Sprintf("getter/%s/%d", form, len(names)))
	if loopAtConstruction != "" {
		x.Fail("mcast.Loop/new-peer/getter-vs-kernel", "a peer on which SetLoop was never called: %s", loopAtConstruction)
	}
}

// ---- SetAsyncReadBuffer -----------------------------------------------------------------------------

// c12BufferChain: n datagrams are queued, then a chain of reads — every completion starts the next read with
// the next buffer of a ring of k — consumes them. The first 32 complete inline, the 33rd is issued at the
// dispatch limit and parked without having tried the socket, later ones alternate. Every datagram must land in
// the buffer handed to the read that reports it, and in no other.
func c12BufferChain(x *engine.X, n, k int) {
	ioc, _ := sonic.NewIO()
	x.Defer(func() { ioc.Close() })
	p, err := newOwnPeer(ioc, "127.0.0.1")
	if err != nil {
		engine.HarnessError("NewUDPPeer: %v", err)
	}
	x.Defer(func() { p.Close() })
	raw, _, _ := kern.UDPSocket()
	x.Defer(func() { syscall.Close(raw) })
	ring := make([][]byte, k)
	for i := range ring {
		ring[i] = make([]byte, 32)
	}
	var sent [][]byte
	for i := 0; i < n; i++ {
		d := dgram(100+i, 9+i%5)
		sent = append(sent, d)
		sendtoRetry(raw, d, &syscall.SockaddrInet4{Addr: [4]byte{127, 0, 0, 1}, Port: p.LocalAddr().Port})
	}
	kern.AwaitReadReady(p.NextLayer().RawFd(), settleGuard)
	done := 0
	var issue func(i int)
	issue = func(i int) {
		buf := ring[i%k]
		snap := make([][]byte, k)
		for j := range ring {
			snap[j] = append([]byte{}, ring[j]...)
		}
		calls := 0
		p.AsyncRead(buf, func(err error, m int, _ netip.AddrPort) {
			calls++
			if calls > 1 {
				x.Fail("mcast.AsyncRead/callback-twice", "read %d completed %d times", i, calls)
			}
			if err != nil || m != len(sent[i]) {
				x.Fail("mcast.AsyncRead/chain-result", "read %d of a chain over %d queued datagrams completed with (%v,%d), datagram %d has %d bytes", i, n, err, m, i, len(sent[i]))
			}
			if string(buf[:m]) != string(sent[i]) {
				x.Fail("mcast.AsyncRead/not-the-designated-buffer", "read %d (ring of %d buffers, %d datagrams queued): the buffer handed to this read holds %x, datagram %d is %x", i, k, n, buf[:m], i, sent[i])
			}
			for j := range ring {
				if j != i%k && string(ring[j]) != string(snap[j]) {
					x.Fail("mcast.AsyncRead/other-buffer-written", "read %d changed ring buffer %d, which was not handed to it", i, j)
				}
			}
			done++
			if i+1 < n {
				issue(i + 1)
			}
		})
	}
	issue(0)
	for i := 0; i < n+4 && done < n; i++ {
		ioc.PollOne()
	}
	x.Nontrivial()
	if done != n {
		x.Fail("mcast.AsyncRead/chain-incomplete", "%d of %d queued datagrams were reported", done, n)
	}
	if ioc.Dispatched != 0 {
		x.Fail("mcast.AsyncRead/dispatched-not-zero", "IO.Dispatched=%d after the chain unwound", ioc.Dispatched)
	}
	x.Outcome(fmt.Sprintf("chain%d/%d", n, k))
}

// c12WriteChain: n writes, each issued from the previous one's completion callback, with a payload of its own and
// alternating between two destinations. The 33rd is issued at the dispatch limit and parked. Every destination must
// receive exactly its datagrams, in order, with the caller's bytes, and every callback runs once with its own result.
func c12WriteChain(x *engine.X, target, n int) {
	ioc, _ := sonic.NewIO()
	x.Defer(func() { ioc.Close() })
	var pc sonic.PacketConn
	var mp *multicast.UDPPeer
	var err error
	if target == 0 {
		pc, err = sonic.NewPacketConn(ioc, "udp", "127.0.0.1:0")
		if err != nil {
			engine.HarnessError("NewPacketConn: %v", err)
		}
		x.Defer(func() { pc.Close() })
	} else {
		mp, err = newOwnPeer(ioc, "127.0.0.1")
		if err != nil {
			engine.HarnessError("NewUDPPeer: %v", err)
		}
		x.Defer(func() { mp.Close() })
	}
	var dst [2]int
	var dport [2]int
	for i := range dst {
		dst[i], dport[i], _ = kern.UDPSocket()
		fd := dst[i]
		syscall.SetsockoptInt(fd, syscall.SOL_SOCKET, syscall.SO_RCVBUF, 1<<20)
		x.Defer(func() { syscall.Close(fd) })
	}
	calls := make([]int, n)
	done := 0
	var issue func(i int)
	issue = func(i int) {
		payload := dgram(200+i, 5+i%7)
		port := dport[i%2]
		cb := func(err error) {
			calls[i]++
			if calls[i] > 1 {
				x.Fail("udp.write/chain/callback-twice", "write %d of the chain: callback ran %d times", i, calls[i])
			}
			if err != nil {
				x.Fail("udp.write/chain/error", "write %d of the chain: %v", i, err)
			}
			done++
			if i+1 < n {
				issue(i + 1)
			}
		}
		if target == 0 {
			pc.AsyncWriteTo(payload, &net.UDPAddr{IP: net.IPv4(127, 0, 0, 1).To4(), Port: port}, cb)
		} else {
			mp.AsyncWrite(payload, netip.AddrPortFrom(netip.AddrFrom4([4]byte{127, 0, 0, 1}), uint16(port)), func(err error, m int) {
				if err == nil && m != len(payload) {
					x.Fail("udp.write/count", "write %d of the chain (%d bytes) reported n=%d", i, len(payload), m)
				}
				cb(err)
			})
		}
	}
	issue(0)
	for i := 0; i < n+4 && done < n; i++ {
		ioc.PollOne()
	}
	x.Nontrivial()
	if done != n {
		x.Fail("udp.write/chain/incomplete", "%d of %d chained writes completed", done, n)
	}
	for k := 0; k < 2; k++ {
		buf := make([]byte, 64)
		for i := k; i < n; i += 2 {
			want := dgram(200+i, 5+i%7)
			if !kern.AwaitReadReady(dst[k], 300*time.Millisecond) {
				x.Fail("udp.write/chain/no-datagram", "write %d of a chain of %d reported success; destination %d received only %d datagrams", i, n, k, (i-k)/2)
			}
			m, _, rerr := syscall.Recvfrom(dst[k], buf, 0)
			if rerr != nil || string(buf[:max(m, 0)]) != string(want) {
				x.Fail("udp.write/chain/datagram-bytes", "destination %d, datagram %d: received %x, write %d of the chain carried %x", k, (i-k)/2, buf[:max(m, 0)], i, want)
			}
		}
		if kern.WouldNotBlockRead(dst[k]) {
			x.Fail("udp.write/chain/extra-datagram", "destination %d received more datagrams than were written to it", k)
		}
	}
	x.Outcome(fmt.Sprintf("writechain/%d/%d", target, n))
}

func c12Buffer(x *engine.X) {
	switch x.Pick(8, "buffer scenario") {
	case 4:
		c12WriteChain(x, 0, 34)
		return
	case 5:
		c12WriteChain(x, 1, 34)
		return
	case 6:
		c12WriteChain(x, 0, 70)
		return
	case 7:
		c12WriteChain(x, 1, 70)
		return
	case 1:
		c12BufferChain(x, 34, 2)
		return
	case 2:
		c12BufferChain(x, 40, 4)
		return
	case 3:
		c12BufferChain(x, 70, 3)
		return
	}
	ioc, _ := sonic.NewIO()
	x.Defer(func() { ioc.Close() })
	p, err := newOwnPeer(ioc, "127.0.0.1")
	if err != nil {
		engine.HarnessError("NewUDPPeer: %v", err)
	}
	x.Defer(func() { p.Close() })
	raw, _, _ := kern.UDPSocket()
	x.Defer(func() { syscall.Close(raw) })
	b1 := make([]byte, 16)
	b2 := make([]byte, 16)
	b3 := make([]byte, 16)
	calls := 0
	var gn int
	p.AsyncRead(b1, func(err error, n int, _ netip.AddrPort) { calls++; gn = n })
	chain := 1 + x.Pick(2, "buffers designated after AsyncRead")
	p.SetAsyncReadBuffer(b2)
	last := b2
	if chain == 2 {
		p.SetAsyncReadBuffer(b3)
		last = b3
	}
	payload := dgram(5, 9)
	sendtoRetry(raw, payload, &syscall.SockaddrInet4{Addr: [4]byte{127, 0, 0, 1}, Port: p.LocalAddr().Port})
	kern.AwaitReadReady(p.NextLayer().RawFd(), settleGuard)
	for i := 0; i < 3 && calls == 0; i++ {
		ioc.PollOne()
	}
	x.Nontrivial()
	if calls != 1 || gn != 9 {
		x.Fail("mcast.SetAsyncReadBuffer/completion", "callbacks=%d n=%d", calls, gn)
	}
	if string(last[:9]) != string(payload) {
		x.Fail("mcast.SetAsyncReadBuffer/not-latest-buffer", "the datagram did not land in the buffer designated last")
	}
	for _, b := range [][]byte{b1, b2, b3} {
		if &b[0] != &last[0] && string(b[:9]) == string(payload) {
			x.Fail("mcast.SetAsyncReadBuffer/stale-buffer-written", "the datagram was also written into a buffer designated earlier")
		}
	}
	x.Outcome("buffer")
}

func c12Body(tier string) func(x *engine.X) {
	depth := 3
	if tier == "thorough" {
		depth = 4
	}
	return func(x *engine.X) {
		switch x.Pick(5, "family") {
		case 4:
			c12Stale(x)
		case 0:
			c12Boundary(x, tier)
		case 1:
			c12Member(x, depth)
		case 2:
			c12Getters(x)
		default:
			c12Buffer(x)
		}
	}
}

func c12DFS(tier string) *engine.DFS {
	dev := 1
	if tier == "thorough" {
		dev = 2
	}
	return &engine.DFS{Name: "udp@" + tier, Body: c12Body(tier), Procs: 16, WorkerProcs: 2, ShardDepth: 3, MaxDeviations: dev, MaxPoints: 80, HangTimeout: 30 * time.Second}
}

func C12(tier string) *engine.Report {
	rep := engine.NewReport("C12", tier, "exploration")
	var tot engine.DFSTotals
	d := c12DFS(tier)
	d.Budget = 5 * time.Minute
	if tier == "thorough" {
		d.Budget = 25 * time.Minute
	}
	tot.Add(d.Run(), rep)
	_, _, ok := mcastInterface()
	tot.Fill(rep, "boundary: every datagram size 1..1472 and {1473,4096,9000,65507} x packet conn / multicast peer x read (buffer shorter/exact/longer; burst, second sender, early start, forced-deferred as deviations) / write; "+
		"member: all sequences up to depth 3/4 of 14 membership calls over 2 groups x 2 sources with a probe per group and a fence after every call; getter: all sequences up to depth 3 of 10 setters x 5 bind forms against getsockopt/getsockname; buffer: SetAsyncReadBuffer chains, and chains of 34/40/70 reads over queued datagrams with a ring of 2/4/3 buffers (crossing the dispatch limit); chains of 34/70 writes with distinct payloads to two alternating destinations; "+
		"non-trivial = a datagram was transferred or a call made", d.MaxDeviations)
	rep.Coverage["multicast_interface_available"] = ok
	if !ok {
		rep.Coverage["exhaustive"] = false
	}
	rep.Assumptions = append(rep.Assumptions, "local multicast delivery is in send order on one socket (the fence datagram is sent after the probe from the same socket)", "one real source address only; the second source never sends")
	return rep
}

func C12Replay(v engine.Violation, log func(string)) *engine.Violation {
	return c12DFS(v.Config[4:]).ReplayChoices(v.Choices)
}
