package checks

// C18 — WebSocket opening handshake: sound acceptance, robust parsing, no lost bytes
// (and the handshake part of C13: a failed handshake leaves the descriptor table as it was).
//
// Engine E1/E4 over real TCP. A scripted raw server thread is lock-stepped with the client: after writing
// segment i it waits until the segment has left its socket (SIOCOUTQ == 0) and the client has consumed it
// (FIONREAD on the client's descriptor == 0, found by matching the local port), or the handshake has
// returned, before it sends segment i+1 — so the client sees exactly the scripted segmentation.
// Response space: the full product status {101,200,400} x Upgrade {websocket, WebSocket, other, absent} x
// Sec-WebSocket-Accept {right, wrong, absent}; around the conforming response every header order (6), letter
// case {canonical, lower, UPPER}, optional whitespace {": v", ":v", ":  v", ": v  "}; 0/1/2 frames piggy-backed
// after the blank line; every single cut of response+frames (a deviation), a second cut, the server closing
// after the first segment; blocking and asynchronous handshake; a preceding handshake on the same stream
// that failed, or succeeded and was then dropped.
// Oracle: the request (parsed with net/http) is a well-formed upgrade with a fresh 16-byte key and the
// caller's header; the stream becomes active iff status 101 + Upgrade: websocket + the right accept value,
// otherwise error and StateTerminated; frames read afterwards are exactly the piggy-backed ones; nothing
// more; a failed handshake leaves no descriptor behind.

import (
	"bufio"
	"bytes"
	"crypto/sha1"
	"encoding/base64"
	"fmt"
	"net/http"
	"strings"
	"sync/atomic"
	"syscall"
	"time"

	"github.com/talostrading/sonic"
	"github.com/talostrading/sonic/codec/websocket"
	"verifmc/engine"
	"verifmc/kern"
	"verifmc/wsref"
)

type hsVariant struct {
	name    string
	status  int
	upgrade string // "" = absent
	accept  string // "right" | "wrong" | ""
	order   [3]int // permutation of (Upgrade, Connection, Accept)
	caseM   int    // 0 canonical 1 lower 2 upper
	ows     int    // 0 ": v" 1 ":v" 2 ":  v" 3 ": v  "
}

func (v hsVariant) ok() bool {
	return v.status == 101 && strings.EqualFold(v.upgrade, "websocket") && v.accept == "right"
}

func hsVariants() []hsVariant {
	var vs []hsVariant
	id := [3]int{0, 1, 2}
	vs = append(vs, hsVariant{"conforming", 101, "websocket", "right", id, 0, 0})
	for _, st := range []int{101, 200, 400} {
		for _, up := range []string{"websocket", "WebSocket", "h2c", ""} {
			for _, ac := range []string{"right", "wrong", ""} {
				if st == 101 && up == "websocket" && ac == "right" {
					continue
				}
				vs = append(vs, hsVariant{fmt.Sprintf("status=%d upgrade=%q accept=%s", st, up, ac), st, up, ac, id, 0, 0})
			}
		}
	}
	// near misses of the accept value: base64 is case-sensitive, and the whole value must match
	for _, ac := range []string{"swapcase", "truncated", "suffixed", "lower"} {
		vs = append(vs, hsVariant{"status=101 upgrade=\"websocket\" accept=" + ac, 101, "websocket", ac, id, 0, 0})
	}
	for _, o := range [][3]int{{0, 2, 1}, {1, 0, 2}, {1, 2, 0}, {2, 0, 1}, {2, 1, 0}} {
		vs = append(vs, hsVariant{fmt.Sprintf("order=%v", o), 101, "websocket", "right", o, 0, 0})
	}
	for c := 1; c <= 2; c++ {
		vs = append(vs, hsVariant{fmt.Sprintf("case=%d", c), 101, "websocket", "right", id, c, 0})
	}
	for w := 1; w <= 3; w++ {
		vs = append(vs, hsVariant{fmt.Sprintf("ows=%d", w), 101, "websocket", "right", id, 0, w})
	}
	// a conforming response may carry any number of further headers (cookies, server banners): totals of about 1000, 1024,
	// 1100, 2100, 5000 and 9000 bytes, i.e. below, at and well beyond any fixed-size receive buffer
	for _, pad := range []int{880, 905, 980, 2000, 4900, 8900} {
		vs = append(vs, hsVariant{fmt.Sprintf("padding=%d", pad), 101, "websocket", "right", id, 0, 0})
	}
	// the Connection header is a token list (RFC 7230 6.1) and not one of the three things the outcome depends on
	for _, c := range []string{"upgrade", "keep-alive, Upgrade", "Upgrade, keep-alive", "absent"} {
		vs = append(vs, hsVariant{"connection=" + c, 101, "websocket", "right", id, 0, 0})
	}
	return vs
}

func acceptFor(key string) string {
	h := sha1.New()
	h.Write([]byte(key + "258EAFA5-E914-47DA-95CA-C5AB0DC85B11"))
	return base64.StdEncoding.EncodeToString(h.Sum(nil))
}

func (v hsVariant) render(key string) []byte {
	text := map[int]string{101: "Switching Protocols", 200: "OK", 400: "Bad Request"}[v.status]
	var hdrs [3][2]string
	hdrs[0] = [2]string{"Upgrade", v.upgrade}
	hdrs[1] = [2]string{"Connection", "Upgrade"}
	if strings.HasPrefix(v.name, "connection=") {
		hdrs[1][1] = v.name[len("connection="):]
		if hdrs[1][1] == "absent" {
			hdrs[1][1] = ""
		}
	}
	switch v.accept {
	case "right":
		hdrs[2] = [2]string{"Sec-WebSocket-Accept", acceptFor(key)}
	case "wrong":
		hdrs[2] = [2]string{"Sec-WebSocket-Accept", acceptFor(key + "x")}
	case "swapcase", "lower", "truncated", "suffixed":
		right := acceptFor(key)
		near := right
		switch v.accept {
		case "swapcase":
			near = strings.Map(func(r rune) rune {
				switch {
				case r >= 'a' && r <= 'z':
					return r - 32
				case r >= 'A' && r <= 'Z':
					return r + 32
				}
				return r
			}, right)
		case "lower":
			near = strings.ToLower(right)
		case "truncated":
			near = right[:len(right)-2] + "="
		case "suffixed":
			near = right + "A"
		}
		if near == right {
			near = acceptFor(key + "x") // (a value without letters: cannot happen with 27 base64 symbols in practice)
		}
		hdrs[2] = [2]string{"Sec-WebSocket-Accept", near}
	}
	var sb strings.Builder
	fmt.Fprintf(&sb, "HTTP/1.1 %d %s\r\n", v.status, text)
	for _, i := range v.order {
		h := hdrs[i]
		if h[1] == "" {
			continue
		}
		name := h[0]
		switch v.caseM {
		case 1:
			name = strings.ToLower(name)
		case 2:
			name = strings.ToUpper(name)
		}
		switch v.ows {
		case 0:
			fmt.Fprintf(&sb, "%s: %s\r\n", name, h[1])
		case 1:
			fmt.Fprintf(&sb, "%s:%s\r\n", name, h[1])
		case 2:
			fmt.Fprintf(&sb, "%s:  %s\r\n", name, h[1])
		case 3:
			fmt.Fprintf(&sb, "%s: %s  \r\n", name, h[1])
		}
	}
	if strings.HasPrefix(v.name, "padding=") {
		var pad int
		fmt.Sscanf(v.name, "padding=%d", &pad)
		for i := 0; pad > 0; i++ {
			n := min(pad, 200)
			fmt.Fprintf(&sb, "X-Pad-%d: %s\r\n", i, strings.Repeat("p", n))
			pad -= n
		}
	}
	if v.status != 101 {
		sb.WriteString("Content-Length: 0\r\n")
	}
	sb.WriteString("\r\n")
	return []byte(sb.String())
}

type hsScript struct {
	variant  hsVariant
	frames   []wsref.Frame
	cuts     []int
	closeAt  bool // close after the first segment
	eofAfter bool // after a complete response (and frames) close the connection
}

type hsServer struct {
	lfd  int
	addr [4]byte
	port int
}

func newHSServer() *hsServer {
	lfd, addr, port, err := kern.TCPListener()
	if err != nil {
		engine.HarnessError("listener: %v", err)
	}
	return &hsServer{lfd, addr, port}
}

type hsResult struct {
	req     *http.Request
	err     string
	sentAll bool
	conn    int
	wire    []byte
}

func findClientFd(port int, not int) int {
	for fd := 3; fd < 256; fd++ {
		if fd == not {
			continue
		}
		sa, err := syscall.Getsockname(fd)
		if err != nil {
			continue
		}
		if s4, ok := sa.(*syscall.SockaddrInet4); ok && s4.Port == port {
			return fd
		}
	}
	return -1
}

// serve handles one connection according to the script. done is set by the client side when the handshake
// call has returned.
func (s *hsServer) serve(sc hsScript, done *atomic.Bool, out chan<- hsResult) {
	var res hsResult
	res.conn = -1
	defer func() { out <- res }()
	if !kern.AwaitReadable(s.lfd, settleGuard) {
		res.err = "no connection arrived"
		return
	}
	cfd, rsa, err := syscall.Accept4(s.lfd, syscall.SOCK_CLOEXEC)
	if err != nil {
		res.err = "accept: " + err.Error()
		return
	}
	res.conn = cfd
	rport := rsa.(*syscall.SockaddrInet4).Port
	syscall.SetsockoptInt(cfd, syscall.IPPROTO_TCP, syscall.TCP_NODELAY, 1)
	// read the request
	var reqb []byte
	buf := make([]byte, 4096)
	for !bytes.Contains(reqb, []byte("\r\n\r\n")) {
		if !kern.AwaitReadReady(cfd, settleGuard) {
			res.err = "request did not arrive"
			return
		}
		n, err := syscall.Read(cfd, buf)
		if err != nil || n == 0 {
			res.err = "request read failed"
			return
		}
		reqb = append(reqb, buf[:n]...)
	}
	req, err := http.ReadRequest(bufio.NewReader(bytes.NewReader(reqb)))
	if err != nil {
		res.err = "request does not parse: " + err.Error()
		return
	}
	res.req = req
	key := req.Header.Get("Sec-WebSocket-Key")
	wire := sc.variant.render(key)
	for _, f := range sc.frames {
		wire = append(wire, f.Encode()...)
	}
	res.wire = wire
	client := findClientFd(rport, cfd)
	segs := split(wire, sc.cuts)
	for i, sg := range segs {
		if _, err := syscall.Write(cfd, sg); err != nil {
			res.err = "server write: " + err.Error()
			return
		}
		if i == 0 && sc.closeAt {
			syscall.Shutdown(cfd, syscall.SHUT_WR)
			return
		}
		if i == len(segs)-1 {
			break
		}
		// lock-step: wait until this segment has been consumed by the client (or the handshake is over)
		dl := time.Now().Add(settleGuard)
		for {
			if done.Load() {
				break
			}
			if kern.Outq(cfd) == 0 && client >= 0 && kern.Inq(client) == 0 {
				// consumed: give the reader one more look (it may be between read and parse)
				break
			}
			if time.Now().After(dl) {
				res.err = "segment was not consumed"
				return
			}
			time.Sleep(20 * time.Microsecond)
		}
	}
	res.sentAll = true
	if sc.eofAfter {
		syscall.Shutdown(cfd, syscall.SHUT_WR)
	}
}

func hsFrames(n int) []wsref.Frame {
	var fs []wsref.Frame
	for i := 0; i < n; i++ {
		p := payloadBytes(i+1, 3+4*i)
		if i == 1 {
			// the second frame's payload contains a blank line of its own: the end of the response header is the
			// FIRST blank line of the stream, wherever later ones are
			p = append([]byte("x\r\n\r\ny"), p...)
		}
		fs = append(fs, wsref.Frame{Fin: true, Op: wsref.OpBinary, Payload: p})
	}
	return fs
}

// doHandshake runs one handshake of ws against a fresh scripted connection.
func doHandshake(x *engine.X, ioc *sonic.IO, ws *websocket.Stream, srv *hsServer, sc hsScript, async bool) (hsResult, error) {
	var done atomic.Bool
	out := make(chan hsResult, 1)
	go srv.serve(sc, &done, out)
	url := fmt.Sprintf("ws://%s/path?q=1", kern.AddrString(srv.addr, srv.port))
	var herr error
	if async {
		fin := false
		ws.AsyncHandshake(url, func(err error) { herr = err; fin = true }, websocket.ExtraHeader(true, "X-Verif", "yes"))
		dl := time.Now().Add(4 * settleGuard)
		for !fin {
			ioc.RunOneFor(20 * time.Millisecond)
			if time.Now().After(dl) {
				done.Store(true)
				<-out
				x.Fail("handshake/async-callback-lost", "AsyncHandshake did not call back within %v", 4*settleGuard)
			}
		}
	} else {
		herr = ws.Handshake(url, websocket.ExtraHeader(true, "X-Verif", "yes"))
	}
	done.Store(true)
	res := <-out
	return res, herr
}

// c18Priors: what happened on the same Stream before the handshake under test. Every session that was established is
// dropped by the application (CloseNextLayer) in a state that leaves something behind in the Stream.
var c18Priors = []string{
	"none",
	"failed (status 400)",
	"established; one frame read, half a frame left unread; dropped",
	"established; a ping was read, the server reset the connection, the next read failed (the pong could not be flushed); dropped",
	"established; a frame with RSV1 was read (error reported, Close 1002 queued), never flushed; dropped",
	"established; the server reset the connection, a blocking Write failed; dropped",
	"established; the client sent its Close, then a WriteFrame of a pooled frame with a 100-byte payload was refused; dropped",
	"established; a ping was read (its pong is queued) and the application simply connects again: the stream is still active",
}

func c18Body(x *engine.X) { c18BodyOpt(x, false) }

// c18OnlyResumed restricts the body to the conforming response (set by c18ResumedDFS, whose runs are part of the
// checks of C06 and C17: their own drivers attach the transport directly and never go through Stream.reset()).
var c18OnlyResumed bool

// c18ResumedDFS: every prior-session shape x blocking/async x 0..2 piggy-backed frames, no cuts: after the second
// handshake the frames the server sent are read back exactly (inbound side) and the server receives exactly the
// first message written (outbound side).
func c18ResumedDFS(tier string) *engine.DFS {
	return &engine.DFS{Name: "resumed-session@" + tier, Body: func(x *engine.X) {
		c18OnlyResumed = true
		defer func() { c18OnlyResumed = false }()
		c18BodyOpt(x, false)
	}, Procs: 8, WorkerProcs: 1, GCEvery: 50, ShardDepth: 2, MaxDeviations: 0, MaxPoints: 60, HangTimeout: 60 * time.Second} // single-P workers, collections only between executions: frame pooling is deterministic
}

// c18BodyOpt with onlyFailing explores just the non-upgrading responses without cuts: the part of the
// handshake space that C13's "a failed handshake leaves the descriptors as they were" needs.
func c18BodyOpt(x *engine.X, onlyFailing bool) {
	c13Init()
	vs := hsVariants()
	if onlyFailing {
		var f []hsVariant
		for _, v := range vs {
			if !v.ok() {
				f = append(f, v)
			}
		}
		f = append(f, vs[0]) // the conforming response, which fails when the server closes early
		vs = f
	}
	if c18OnlyResumed {
		vs = vs[:1] // the conforming response only: the subject is what an earlier session leaves behind
	}
	async := x.Pick(2, "blocking/async handshake") == 1
	v := vs[x.Pick(len(vs), "response variant")]
	nfr := 0
	if !onlyFailing {
		nfr = x.Pick(3, "piggy-backed frames")
	}
	prior := 0
	if onlyFailing {
		// C13's clause on a stream that has already had a session: a handshake that fails there must close the
		// connection it has just dialled, not something left over from the earlier session
		prior = []int{0, 2}[x.Pick(2, "fresh stream / a stream that had an established session before")]
	}
	if !onlyFailing {
		if v.name == "conforming" {
			// for the conforming response the history of the stream is a free choice, so that it combines with every
			// cut, second cut and early close below even at the smallest deviation bound
			prior = x.Pick(len(c18Priors), "a preceding handshake on the same stream")
		} else {
			prior = x.Deviate(len(c18Priors), "a preceding handshake on the same stream")
		}
	}
	ioc, err := sonic.NewIO()
	if err != nil {
		engine.HarnessError("NewIO: %v", err)
	}
	srv := newHSServer()
	ws, _ := websocket.NewWebsocketStream(ioc, nil, websocket.RoleClient)
	var conns []int
	x.Defer(func() {
		ws.CloseNextLayer()
		for _, c := range conns {
			kern.Abort(c)
		}
		syscall.Close(srv.lfd)
		ioc.Close()
	})
	var keys []string
	if prior > 0 {
		pv := hsVariants()[0]
		if prior == 1 {
			pv = hsVariant{"prior-fail", 400, "", "", [3]int{0, 1, 2}, 0, 0}
		}
		x.Note("prior session: %s", c18Priors[prior])
		pframes := hsFrames(1)
		switch prior {
		case 3, 7:
			pframes = []wsref.Frame{{Fin: true, Op: wsref.OpPing, Payload: []byte("pp")}}
		case 4:
			pframes = []wsref.Frame{{Fin: true, Rsv: 4, Op: wsref.OpText, Payload: []byte("x")}}
		case 5, 6:
			pframes = nil
		}
		if prior == 2 {
			// the dropped session ends in the middle of a frame: a frame and a half arrive, the application reads
			// one frame, the rest stays buffered in the stream when the connection goes away
			pframes = append(pframes, wsref.Frame{Fin: true, Op: wsref.OpBinary, Payload: []byte("abcde"), Decl: u64p(9)})
		}
		pres, perr := doHandshake(x, ioc, ws, srv, hsScript{variant: pv, frames: pframes, eofAfter: prior == 2}, false)
		if pres.err != "" {
			x.Inconclusive("prior handshake: " + pres.err)
		}
		conns = append(conns, pres.conn)
		if pres.req != nil {
			keys = append(keys, pres.req.Header.Get("Sec-WebSocket-Key"))
		}
		if (perr == nil) != pv.ok() {
			x.Inconclusive(fmt.Sprintf("prior handshake outcome %v", perr))
		}
		switch prior {
		case 2:
			// read the complete frame only; the half frame stays behind in the stream's buffer
			ws.NextFrame()
		case 3:
			if f, err := ws.NextFrame(); err != nil || !f.Opcode().IsPing() {
				x.Inconclusive(fmt.Sprintf("prior session: the ping was not read (%v)", err))
			}
			kern.Abort(pres.conn)
			pres.conn = -1
			if cfd := ws.NextLayer().RawFd(); cfd >= 0 {
				kern.AwaitReadReady(cfd, settleGuard) // the reset has arrived
			}
			if _, err := ws.NextFrame(); err == nil {
				x.Inconclusive("prior session: the read after the reset did not fail")
			}
		case 7:
			if f, err := ws.NextFrame(); err != nil || !f.Opcode().IsPing() {
				x.Inconclusive(fmt.Sprintf("prior session: the ping was not read (%v)", err))
			}
			if ws.State() != websocket.StateActive {
				x.Inconclusive("prior session: the stream is not active after reading a ping")
			}
		case 4:
			if _, err := ws.NextFrame(); err == nil {
				x.Inconclusive("prior session: the RSV1 frame was not reported")
			}
		case 6:
			ws.Close(websocket.CloseNormal, "")
			late := ws.AcquireFrame()
			late.SetFIN().SetBinary().SetPayload(payloadBytes(77, 100))
			if err := ws.WriteFrame(late); err == nil {
				x.Inconclusive("prior session: a WriteFrame after Close was accepted")
			}
		case 5:
			kern.Abort(pres.conn)
			pres.conn = -1
			if cfd := ws.NextLayer().RawFd(); cfd >= 0 {
				kern.AwaitReadReady(cfd, settleGuard) // the reset has arrived
			}
			if err := ws.Write([]byte("stale message of the dropped session"), websocket.TypeText); err == nil {
				x.Note("prior session: the write after the reset did not fail")
			}
		}
		ws.CloseNextLayer()
		if pres.conn >= 0 {
			kern.Abort(pres.conn)
		}
		conns = conns[:0]
	}
	sc := hsScript{variant: v, frames: hsFrames(nfr)}
	// on a stream that had a session before, the first frame sent with the response is a Ping: reading it queues a
	// Pong (a pooled frame), which must go out ahead of the first message — with the ping's payload, not the message's
	pingFirst := nfr >= 1 && prior >= 2 && prior != 6 // (6: the first thing written is the bare pooled frame, see below)
	if pingFirst {
		sc.frames[0] = wsref.Frame{Fin: true, Op: wsref.OpPing, Payload: []byte("ping-of-the-new-session")}
	}
	total := len(v.render(strings.Repeat("A", 24))) + func() int {
		n := 0
		for _, f := range sc.frames {
			n += len(f.Encode())
		}
		return n
	}()
	// every position for ordinary responses; for the padded ones (up to 9 kB) a grid: the first 40 bytes, every 61st
	// byte, the bytes around 1024 / 2048 / 4096 / 8192 (where a receive buffer would fill), and the last 60 bytes
	positions := make([]int, 0, total)
	if strings.HasPrefix(v.name, "padding=") {
		mark := map[int]bool{}
		for p := 1; p < total; p++ {
			near := false
			for _, b := range []int{1024, 2048, 4096, 8192} {
				if p >= b-4 && p <= b+4 {
					near = true
				}
			}
			if p <= 40 || p%61 == 0 || near || p >= total-60 {
				mark[p] = true
			}
		}
		for p := 1; p < total; p++ {
			if mark[p] {
				positions = append(positions, p)
			}
		}
	} else {
		for p := 1; p < total; p++ {
			positions = append(positions, p)
		}
	}
	if ci := x.Deviate(len(positions)+1, "first cut position"); ci > 0 {
		c := positions[ci-1]
		sc.cuts = append(sc.cuts, c)
		rest := total - c
		if c2 := x.Deviate((rest+7)/8, "second cut (grid of 8)"); c2 > 0 && c+c2*8 < total {
			sc.cuts = append(sc.cuts, c+c2*8)
		}
		sc.closeAt = x.Deviate(2, "server closes after the first segment") == 1
	}
	x.Note("async=%v variant=%s frames=%d cuts=%v closeAt=%v prior=%d", async, v.name, nfr, sc.cuts, sc.closeAt, prior)
	x.Nontrivial()
	before := kern.Census(c13Dir)
	if async && !v.ok() && len(sc.cuts) == 0 && x.Deviate(2, "the failure callback starts the next handshake at once") == 1 {
		c18RetryFromCallback(x, ioc, ws, srv, sc, before)
		return
	}
	res, herr := doHandshake(x, ioc, ws, srv, sc, async)
	conns = append(conns, res.conn)
	if res.err != "" && res.req == nil {
		x.Inconclusive("server: " + res.err)
	}
	// request well-formedness
	r := res.req
	key := r.Header.Get("Sec-WebSocket-Key")
	kb, kerr := base64.StdEncoding.DecodeString(key)
	switch {
	case r.Method != "GET":
		x.Fail("handshake/request", "method %s", r.Method)
	case r.Host == "":
		x.Fail("handshake/request", "no Host")
	case !strings.EqualFold(r.Header.Get("Upgrade"), "websocket"):
		x.Fail("handshake/request", "Upgrade: %q", r.Header.Get("Upgrade"))
	case !strings.EqualFold(r.Header.Get("Connection"), "upgrade"):
		x.Fail("handshake/request", "Connection: %q", r.Header.Get("Connection"))
	case r.Header.Get("Sec-WebSocket-Version") != "13":
		x.Fail("handshake/request", "Sec-WebSocket-Version: %q", r.Header.Get("Sec-WebSocket-Version"))
	case kerr != nil || len(kb) != 16:
		x.Fail("handshake/request", "Sec-WebSocket-Key %q is not 16 bytes of base64", key)
	case r.Header.Get("X-Verif") != "yes":
		x.Fail("handshake/request", "caller-supplied header missing")
	case r.URL.Path != "/path" || r.URL.RawQuery != "q=1":
		x.Fail("handshake/request", "request target %q", r.URL.String())
	}
	for _, k := range keys {
		if k == key {
			x.Fail("handshake/key-not-fresh", "the same Sec-WebSocket-Key was sent in two handshakes")
		}
	}
	wantOK := v.ok() && !sc.closeAt
	if sc.closeAt && v.ok() {
		// the server closed after the first segment: success is only possible if that segment held the whole response
		hdrLen := len(v.render(key))
		wantOK = sc.cuts[0] >= hdrLen
	}
	x.Outcome(fmt.Sprintf("%s/ok=%v/err=%v", map[bool]string{true: "async", false: "sync"}[async], wantOK, herr != nil))
	if wantOK {
		if herr != nil {
			sig := "handshake/conforming-response-rejected"
			switch {
			case len(sc.cuts) > 0:
				sig = "handshake/segmented-response/rejected"
			case v.caseM != 0 || v.ows != 0 || v.order != [3]int{0, 1, 2}:
				sig = "handshake/header-form/rejected"
			}
			x.Fail(sig, "response %q (cuts %v) should upgrade, handshake returned %v", v.name, sc.cuts, herr)
		}
		if ws.State() != websocket.StateActive {
			x.Fail("handshake/state", "handshake succeeded but State()=%s", ws.State())
		}
		// exactly the piggy-backed frames
		deliverable := sc.frames
		if sc.closeAt {
			deliverable = nil
		}
		for i, f := range deliverable {
			// asynchronous read with a bounded wait: a blocking read would hang if bytes were lost
			var g websocket.Frame
			var err error
			calls := 0
			ws.AsyncNextFrame(func(e error, fr websocket.Frame) {
				calls++
				err = e
				g = append(websocket.Frame{}, fr...)
			})
			for k := 0; k < 60 && calls == 0; k++ {
				ioc.RunOneFor(10 * time.Millisecond)
			}
			if calls == 0 {
				err = fmt.Errorf("no frame within 600 ms although the server has sent everything")
				g = websocket.NewFrame()
			}
			if err != nil || byte(g.Opcode()) != f.Op || string(g.Payload()) != string(f.Payload) {
				sig := "handshake/piggybacked-frame-lost"
				if v.ows != 0 || v.caseM != 0 {
					sig = "handshake/ows-variant/leftover-misplaced"
				}
				x.Fail(sig, "frame %d sent right after the response: read err=%v frame=%x, sent payload %x (variant %s, cuts %v)", i, err, []byte(g), f.Payload, v.name, sc.cuts)
			}
		}
		if !sc.closeAt {
			invented := func() {
				calls := 0
				ws.AsyncNextFrame(func(err error, f websocket.Frame) { calls++ })
				ioc.PollOne()
				ioc.PollOne()
				if calls != 0 {
					x.Fail("handshake/bytes-invented", "a further frame was delivered although the server sent only %d", len(sc.frames))
				}
			}
			if !pingFirst {
				invented() // (starting a read flushes what is queued: with a Pong queued this comes after the write below, so that the Pong and the message are pending together)
			} else {
				defer invented()
			}
			buf := make([]byte, 4096)
			probeMessage := func() {
				// "behaves like a fresh one", outbound side: the first thing the server receives after the request is the
				// first message the application writes on this session — nothing an earlier session left behind
				msg := []byte("first message of this session")
				var werr error
				if async {
					wcalls := 0
					ws.AsyncWrite(msg, websocket.TypeText, func(err error) { wcalls++; werr = err })
					for k := 0; k < 60 && wcalls == 0; k++ {
						ioc.RunOneFor(10 * time.Millisecond)
					}
					if wcalls != 1 {
						x.Fail("handshake/session-write/callback-count", "AsyncWrite after the handshake: callback ran %d times", wcalls)
					}
				} else {
					werr = ws.Write(msg, websocket.TypeText)
				}
				if werr != nil {
					x.Fail("handshake/session-write/error", "the first write of the session failed: %v (prior: %s)", werr, c18Priors[prior])
				}
				want := 6 + len(msg) // header 2 + mask 4 + payload
				if pingFirst {
					want += 6 + len("ping-of-the-new-session")
				}
				var got []byte
				for len(got) < want && kern.AwaitReadReady(res.conn, settleGuard) {
					n, err := syscall.Read(res.conn, buf)
					if err != nil || n <= 0 {
						break
					}
					got = append(got, buf[:n]...)
				}
				frames, rest, _ := wsref.ParseAll(got, 1<<20)
				if pingFirst {
					if len(frames) < 1 || frames[0].Op != wsref.OpPong || string(frames[0].Payload) != "ping-of-the-new-session" || !frames[0].Masked {
						var desc []string
						for _, f := range frames {
							desc = append(desc, fmt.Sprintf("op=%d len=%d %q", f.Op, len(f.Payload), clip(f.Payload)))
						}
						x.Fail("handshake/session-not-fresh/outbound/pong", "the new session's server sent a Ping with the response, the client read it and then wrote one text message; the server received [%s] — expected the Pong echoing the ping, then the message (prior: %s)", strings.Join(desc, "; "), c18Priors[prior])
					}
					frames = frames[1:]
				}
				if len(frames) < 1 || frames[0].Op != wsref.OpText || string(frames[0].Payload) != string(msg) || !frames[0].Masked || len(frames) > 1 || len(rest) > 0 {
					var desc []string
					for _, f := range frames {
						desc = append(desc, fmt.Sprintf("op=%d len=%d %q", f.Op, len(f.Payload), clip(f.Payload)))
					}
					sig := "handshake/session-not-fresh/outbound"
					if len(frames) > 0 {
						switch frames[0].Op {
						case wsref.OpPong:
							sig += "/stale-pong"
						case wsref.OpClose:
							sig += "/stale-close"
						case wsref.OpText, wsref.OpBinary:
							if string(frames[0].Payload) != string(msg) {
								sig += "/stale-data"
							}
						}
					}
					x.Fail(sig, "after the handshake the application wrote one text message; the server received %d bytes: frames [%s] + %d further bytes (prior: %s)", len(got), strings.Join(desc, "; "), len(rest), c18Priors[prior])
				}
			}
			probeBareFrame := func() {
				// ... and a frame taken from the stream's pool and sent as it comes (FIN + Ping, no SetPayload) is an empty
				// Ping: nothing an earlier session put into a pooled frame shows through
				bare := ws.AcquireFrame()
				bare.SetFIN().SetPing()
				var berr error
				if async {
					bcalls := 0
					ws.AsyncWriteFrame(bare, func(err error) { bcalls++; berr = err })
					for k := 0; k < 60 && bcalls == 0; k++ {
						ioc.RunOneFor(10 * time.Millisecond)
					}
				} else {
					berr = ws.WriteFrame(bare)
				}
				if berr != nil {
					x.Fail("handshake/session-write/error", "WriteFrame of a bare Ping on the new session failed: %v (prior: %s)", berr, c18Priors[prior])
				}
				var got2 []byte
				for len(got2) < 6 && kern.AwaitReadReady(res.conn, settleGuard) {
					n, err := syscall.Read(res.conn, buf)
					if err != nil || n <= 0 {
						break
					}
					got2 = append(got2, buf[:n]...)
				}
				if kern.AwaitReadReady(res.conn, 2*time.Millisecond) {
					if n, err := syscall.Read(res.conn, buf); err == nil && n > 0 {
						got2 = append(got2, buf[:n]...)
					}
				}
				pf, prest, _ := wsref.ParseAll(got2, 1<<20)
				if len(pf) != 1 || pf[0].Op != wsref.OpPing || len(pf[0].Payload) != 0 || !pf[0].Fin || len(prest) != 0 {
					x.Fail("handshake/session-not-fresh/pooled-frame", "a frame acquired from the pool and sent with only FIN and the Ping opcode set reached the server as %d bytes % x — expected an empty masked Ping (prior: %s)", len(got2), clip(got2), c18Priors[prior])
				}
			}
			if prior == 6 {
				// the frame the earlier session was refused is in the pool: take it out first, as it comes
				probeBareFrame()
				probeMessage()
			} else {
				probeMessage()
				probeBareFrame()
			}
		}
		return
	}
	if herr == nil {
		x.Fail("handshake/non-conforming-response-accepted", "response %q (closeAt=%v) must not upgrade, handshake returned nil", v.name, sc.closeAt)
	}
	if ws.State() != websocket.StateTerminated {
		x.Fail("handshake/failed-but-not-terminated", "handshake failed (%v) but State()=%s", herr, ws.State())
	}
	// C13: a failed handshake leaves no descriptor behind (the server's end is closed first)
	kern.Abort(res.conn)
	conns = conns[:len(conns)-1]
	after := kern.Census(c13Dir)
	if d := censusDiff(before, after); d != "" {
		x.Fail("handshake/failed/fd-leak", "handshake failed (%v) and left the descriptor table changed: %s", herr, d)
	}
}

// c18RetryFromCallback: an asynchronous handshake that fails, whose failure callback starts the next handshake on
// the same stream at once (a reconnect loop). The second server answers correctly. Afterwards the stream is active on
// the SECOND connection, and once the application drops it the descriptor table is what it was: the first, failed
// connection was closed by the library, not left behind and not confused with the second one.
func c18RetryFromCallback(x *engine.X, ioc *sonic.IO, ws *websocket.Stream, srv *hsServer, sc hsScript, before kern.CensusT) {
	var done1, done2 atomic.Bool
	out1, out2 := make(chan hsResult, 1), make(chan hsResult, 1)
	go srv.serve(sc, &done1, out1)
	url := fmt.Sprintf("ws://%s/path?q=1", kern.AddrString(srv.addr, srv.port))
	var err1, err2 error
	fin, second := false, false
	ws.AsyncHandshake(url, func(err error) {
		err1 = err
		done1.Store(true)
		if err == nil {
			fin = true
			return
		}
		second = true
		go srv.serve(hsScript{variant: hsVariants()[0]}, &done2, out2)
		ws.AsyncHandshake(url, func(err error) { err2 = err; fin = true })
	})
	dl := time.Now().Add(6 * settleGuard)
	for !fin && time.Now().Before(dl) {
		ioc.RunOneFor(20 * time.Millisecond)
	}
	done1.Store(true)
	done2.Store(true)
	res1 := <-out1
	var res2 hsResult
	res2.conn = -1
	if second {
		res2 = <-out2
	}
	defer func() {
		for _, c := range []int{res1.conn, res2.conn} {
			if c >= 0 {
				kern.Abort(c)
			}
		}
	}()
	if !fin {
		x.Fail("handshake/async-callback-lost", "a failing AsyncHandshake whose callback starts the next one: no final callback within %v", 6*settleGuard)
	}
	if err1 == nil {
		x.Fail("handshake/non-conforming-response-accepted", "response %q must not upgrade, the asynchronous handshake reported success", sc.variant.name)
	}
	if res2.err != "" && res2.req == nil {
		x.Inconclusive("second server: " + res2.err)
	}
	if err2 != nil || ws.State() != websocket.StateActive {
		x.Fail("handshake/retry-from-callback/second-handshake", "the handshake started from the failure callback against a conforming server: err=%v State()=%s", err2, ws.State())
	}
	// the stream must be talking to the second server: what it writes arrives there
	if err := ws.Write([]byte("hello"), websocket.TypeText); err != nil {
		x.Fail("handshake/retry-from-callback/write", "first write after the retried handshake: %v", err)
	}
	if !kern.AwaitReadReady(res2.conn, settleGuard) {
		x.Fail("handshake/retry-from-callback/wrong-connection", "the message written after the retried handshake did not reach the second server")
	}
	ws.CloseNextLayer()
	kern.Abort(res1.conn)
	kern.Abort(res2.conn)
	res1.conn, res2.conn = -1, -1
	after := kern.Census(c13Dir)
	if d := censusDiff(before, after); d != "" {
		x.Fail("handshake/failed/fd-leak", "a failed asynchronous handshake whose callback started the next one, which succeeded and was then dropped: the descriptor table changed: %s", d)
	}
	x.Outcome("async/retry-from-callback")
}

func c18DFS(tier string) *engine.DFS {
	dev := 1
	if tier == "thorough" {
		dev = 2
	}
	return &engine.DFS{Name: "handshake@" + tier, Body: c18Body, Procs: 16, WorkerProcs: 4, GCEvery: 20, ShardDepth: 3, MaxDeviations: dev, MaxPoints: 60, HangTimeout: 60 * time.Second}
}

func C18(tier string) *engine.Report {
	rep := engine.NewReport("C18", tier, "exploration")
	var tot engine.DFSTotals
	d := c18DFS(tier)
	d.Budget = 5 * time.Minute
	if tier == "thorough" {
		d.Budget = 25 * time.Minute
	}
	tot.Add(d.Run(), rep)
	// failures before there is a response: the dial, or (wss) the TLS session
	fres := c18DialFailDFS(tier).Run()
	tot.Add(fres, rep)
	rep.Coverage["dial_failures"] = map[string]any{"executions": fres.Executions, "finished": fres.Exhaustive, "violations": len(fres.Violations)}
	tot.Fill(rep, "blocking/async x 60 response variants (full product of status x Upgrade x accept; Connection as a token list in either order, lower-case, or absent; near misses of the accept value: case-swapped, lower-cased, truncated, suffixed; header orders, letter cases, optional whitespace around the conforming response) x 0/1/2 piggy-backed frames; deviations: every single cut of response+frames, a second cut on a grid of 8, server close after the first segment, a preceding session on the same stream (failed handshake; dropped with half a frame unread / a pong or a Close(1002) queued but never flushed / a failed write), a free choice for the conforming response; after every upgrade the server must receive exactly the first message the application writes; "+
		"plus ws:// and wss:// against a port nobody listens on / a peer that closes at once / a peer that sends garbage, blocking and async, twice in a row (error, terminated, no panic, census unchanged); the raw server is lock-stepped with the client through SIOCOUTQ/FIONREAD; every case is a real TCP handshake", d.MaxDeviations)
	rep.Assumptions = append(rep.Assumptions, "SIOCOUTQ==0 on the server socket and FIONREAD==0 on the client socket mean the client has consumed the segment")
	return rep
}

func C18Replay(v engine.Violation, log func(string)) *engine.Violation {
	if strings.HasPrefix(v.Config, "dialfail@") {
		return c18DialFailDFS(v.Config[len("dialfail@"):]).ReplayChoices(v.Choices)
	}
	return c18DFS(v.Config[10:]).ReplayChoices(v.Choices)
}
