package checks

// C15 — WebSocket protocol violations are reported, never delivered as data.
//
// Engine E1 (in memory). Base sessions come from the C06 generator (<= 2/3 messages, small payloads,
// fragmentation and ping/pong insertion as deviations, optional trailing Close); exactly one violation is
// injected, at every frame position where it applies: RSV1/2/3, every reserved opcode (3-7, B-F), mask
// bit, FIN cleared on a control frame, control payload of 126 bytes, continuation with nothing to continue,
// a new data frame inside a fragmented message, a frame larger than the maximum, a message larger than the
// maximum built from fragments that are each within it. Every case is cut (deviations) and read through
// the four read APIs, inline and deferred.
// Oracle: everything before the offending frame/message is delivered as sent; the call that would have
// to deliver the offending frame (frame APIs: framing violations and oversize frames; message APIs: all
// classes) returns an error; no panic; after a framing violation the next flush ends with exactly one
// Close(1002) on the wire and Write/AsyncWrite fail having written nothing.

import (
	"fmt"

	"github.com/talostrading/sonic/codec/websocket"
	"verifmc/engine"
	"verifmc/vstream"
	"verifmc/wsref"
)

const c15Max = 300

type wsMutation struct {
	name    string
	class   string // "framing" | "oversize" | "fragmentation"
	applies func(s *wsSession, i int) bool
	apply   func(s *wsSession, i int)
}

func isCtl(op byte) bool { return op >= 8 }

func c15Mutations() []wsMutation {
	var ms []wsMutation
	for _, rb := range []struct {
		bit  byte
		name string
	}{{4, "RSV1"}, {2, "RSV2"}, {1, "RSV3"}} {
		bit, name := rb.bit, rb.name
		ms = append(ms, wsMutation{name, "framing", func(*wsSession, int) bool { return true }, func(s *wsSession, i int) { s.frames[i].Rsv |= bit }})
	}
	for op := byte(3); op <= 7; op++ {
		op := op
		ms = append(ms, wsMutation{fmt.Sprintf("reserved-opcode-%X", op), "framing",
			func(s *wsSession, i int) bool { return !isCtl(s.frames[i].Op) },
			func(s *wsSession, i int) { s.frames[i].Op = op }})
	}
	for op := byte(0xB); op <= 0xF; op++ {
		op := op
		ms = append(ms, wsMutation{fmt.Sprintf("reserved-opcode-%X", op), "framing",
			func(s *wsSession, i int) bool { return isCtl(s.frames[i].Op) },
			func(s *wsSession, i int) { s.frames[i].Op = op }})
	}
	ms = append(ms, wsMutation{"masked-from-server", "framing", func(*wsSession, int) bool { return true },
		func(s *wsSession, i int) { s.frames[i].Masked = true; s.frames[i].Key = [4]byte{1, 2, 3, 4} }})
	ms = append(ms, wsMutation{"fragmented-control", "framing", func(s *wsSession, i int) bool { return isCtl(s.frames[i].Op) },
		func(s *wsSession, i int) { s.frames[i].Fin = false }})
	ms = append(ms, wsMutation{"control-payload-126", "framing", func(s *wsSession, i int) bool { return isCtl(s.frames[i].Op) },
		func(s *wsSession, i int) { s.frames[i].Payload = payloadBytes(7, 126) }})
	ms = append(ms, wsMutation{"frame-over-max", "oversize", func(s *wsSession, i int) bool { return !isCtl(s.frames[i].Op) },
		func(s *wsSession, i int) { s.frames[i].Payload = payloadBytes(9, c15Max+1) }})
	// a declared length with the top bit of the 64-bit field set (RFC 6455 5.2: the most significant bit MUST be 0), whose
	// low 63 bits are a perfectly acceptable length — and that many payload bytes follow
	ms = append(ms, wsMutation{"length-top-bit-set", "oversize", func(s *wsSession, i int) bool { return !isCtl(s.frames[i].Op) },
		func(s *wsSession, i int) {
			s.frames[i].LenEnc = 8
			s.frames[i].Decl = u64p(1<<63 + uint64(len(s.frames[i].Payload)))
		}})
	ms = append(ms, wsMutation{"continuation-without-start", "fragmentation",
		func(s *wsSession, i int) bool {
			return s.fmsg[i] >= 0 && s.frames[i].Op != wsref.OpCont
		},
		func(s *wsSession, i int) { s.frames[i].Op = wsref.OpCont }})
	ms = append(ms, wsMutation{"data-frame-inside-fragmented-message", "fragmentation",
		func(s *wsSession, i int) bool { return s.fmsg[i] >= 0 && s.frames[i].Op == wsref.OpCont },
		func(s *wsSession, i int) { s.frames[i].Op = wsref.OpBinary }})
	ms = append(ms, wsMutation{"message-over-max-by-fragments", "oversize-message",
		func(s *wsSession, i int) bool { return s.fmsg[i] >= 0 && s.frames[i].Op == wsref.OpCont },
		func(s *wsSession, i int) {
			m := s.fmsg[i]
			for j := range s.frames {
				if s.fmsg[j] == m {
					s.frames[j].Payload = payloadBytes(j, c15Max/2+1)
				}
			}
		}})
	return ms
}

func c15Body(tier string) func(x *engine.X) {
	muts := c15Mutations()
	lengths := []int{1, 0, 126}
	maxMsgs := 2
	return func(x *engine.X) {
		api := x.Pick(4, "read API")
		deferred := false
		if api == 1 || api == 3 {
			deferred = x.Pick(2, "async completion inline/deferred") == 1
		}
		s := genSession(x, maxMsgs, lengths, 0, 1, 126)
		if x.Deviate(2, "trailing close from the peer") == 1 {
			s.frames = append(s.frames, wsref.Frame{Fin: true, Op: wsref.OpClose, Payload: wsref.ClosePayload(1000, "")})
			s.fmsg = append(s.fmsg, -1)
		}
		pos := x.Pick(len(s.frames), "position of the violation")
		var applicable []int
		for k, m := range muts {
			if m.applies(s, pos) {
				applicable = append(applicable, k)
			}
		}
		mu := muts[applicable[x.Pick(len(applicable), "violation kind")]]
		// what is delivered before the violation
		wantFrames := append([]wsref.Frame{}, s.frames[:pos]...)
		badMsg := s.fmsg[pos]
		if badMsg < 0 {
			badMsg = len(s.msgs)
			for j := pos; j < len(s.frames); j++ {
				if s.fmsg[j] >= 0 {
					badMsg = s.fmsg[j]
					break
				}
			}
		}
		if mu.class == "oversize-message" {
			// the whole message is offending; frames of it may be delivered by the frame APIs
			for j := range s.frames {
				if s.fmsg[j] == badMsg {
					wantFrames = append([]wsref.Frame{}, s.frames[:j]...)
					break
				}
			}
		}
		wantMsgs := append([]wsMsg{}, s.msgs[:badMsg]...)
		mu.apply(s, pos)
		s.encode()
		segs := s.segment(x)
		x.Note("%s deferred=%v violation %s at frame %d of %v, wire %d bytes in %d segments", apiNames[api], deferred, mu.name, pos, s.frames, len(s.wire), len(segs))
		x.Nontrivial()
		vs := vstream.New()
		for _, sg := range segs {
			vs.Feed(sg)
		}
		ws := newWS(x, vs, c15Max)
		// "at every position in a session" includes the stretch after the client has sent its own Close and is
		// still reading until the peer's Close arrives: violations there are reported just the same (only the
		// 1002 Close is not sent, the client has said its last word)
		closedFirst := x.Deviate(2, "the client has started the closing handshake before it reads") == 1
		if closedFirst {
			x.Guard("ws.Close/panic", func() { ws.Close(websocket.CloseNormal, "") })
			x.Note("client Close sent first; state %s", ws.State())
		}
		var d delivered
		x.Guard("ws.read/violation/panic", func() {
			d = readAll(x, ws, vs, api, deferred, len(s.frames)+len(s.msgs)+3, 4*c15Max)
		})
		frameAPI := api < 2
		mustError := !frameAPI || mu.class == "framing" || mu.class == "oversize"
		x.Outcome(fmt.Sprintf("%s/%s/err=%v", apiNames[api][len(apiNames[api])-5:], mu.class, d.err != nil))
		if frameAPI {
			if mustError {
				if i, ok := sameFrames(d.frames, wantFrames); !ok {
					if len(d.frames) > len(wantFrames) {
						x.Fail("ws.violation/"+mu.class+"/delivered-by-frame-api", "%s: frame API delivered %v; only %v precede the %s at frame %d", mu.name, d.frames, wantFrames, mu.name, pos)
					}
					x.Fail("ws.violation/frames-before-violation", "%s: frames delivered before the violation %v, sent %v (difference at %d)", mu.name, d.frames, wantFrames, i)
				}
				if d.err == nil {
					x.Fail("ws.violation/"+mu.class+"/not-reported-by-frame-api", "%s at frame %d: frame API reported no error (delivered %v)", mu.name, pos, d.frames)
				}
			}
		} else {
			if len(d.msgs) > len(wantMsgs) {
				x.Fail("ws.violation/"+mu.class+"/delivered-as-message", "%s at frame %d: message API delivered %d messages, only %d precede the violation (frames %v)", mu.name, pos, len(d.msgs), len(wantMsgs), s.frames)
			}
			for i := range d.msgs {
				if d.msgs[i].typ != wantMsgs[i].typ || string(d.msgs[i].payload) != string(wantMsgs[i].payload) {
					x.Fail("ws.violation/message-before-violation", "message %d delivered before the violation differs from what was sent", i)
				}
			}
			if d.err == nil {
				x.Fail("ws.violation/"+mu.class+"/not-reported-by-message-api", "%s at frame %d: message API reported no error (frames %v)", mu.name, pos, s.frames)
			}
			if len(d.msgs) != len(wantMsgs) {
				x.Fail("ws.violation/message-before-violation", "%s at frame %d: %d messages delivered before the error, %d complete messages precede it", mu.name, pos, len(d.msgs), len(wantMsgs))
			}
		}
		if closedFirst {
			vs.DeferWrite = nil
			vs.DeferRead = nil
			vs.StepWrite()
			x.Guard("ws.Flush/panic", func() { ws.Flush() })
			out, _, _ := wsref.ParseAll(vs.Out, 1<<20)
			closes := 0
			for _, p := range out {
				if p.Op == wsref.OpClose {
					closes++
				}
			}
			if closes != 1 {
				x.Fail("ws.violation/close-count-after-local-close", "the client closed first, then met %s: %d Close frames on the wire", mu.name, closes)
			}
			return
		}
		if mu.class == "framing" && d.err != nil {
			vs.DeferWrite = nil
			vs.DeferRead = nil
			vs.StepWrite()
			x.Guard("ws.Flush/panic", func() { ws.Flush() })
			out, rest, _ := wsref.ParseAll(vs.Out, 1<<20)
			closes := 0
			for _, p := range out {
				if p.Op == wsref.OpClose {
					closes++
				}
			}
			if len(rest) != 0 || len(out) == 0 || closes != 1 || out[len(out)-1].Op != wsref.OpClose || len(out[len(out)-1].Payload) < 2 ||
				int(out[len(out)-1].Payload[0])<<8|int(out[len(out)-1].Payload[1]) != 1002 {
				var fs []wsref.Frame
				for _, p := range out {
					fs = append(fs, p.Frame)
				}
				x.Fail("ws.violation/no-close-1002", "after %s and a flush the outbound frames are %v (+%d stray bytes); expected to end with exactly one Close(1002)", mu.name, fs, len(rest))
			}
			before := len(vs.Out)
			var werr error
			x.Guard("ws.Write/panic", func() { werr = ws.Write([]byte("late"), websocket.TypeText) })
			if werr == nil || len(vs.Out) != before {
				x.Fail("ws.violation/write-not-refused", "Write after %s returned %v and put %d bytes on the wire", mu.name, werr, len(vs.Out)-before)
			}
			calls := 0
			x.Guard("ws.AsyncWrite/panic", func() {
				ws.AsyncWrite([]byte("late"), websocket.TypeText, func(err error) { calls++; werr = err })
			})
			if calls != 1 || werr == nil || len(vs.Out) != before {
				x.Fail("ws.violation/write-not-refused", "AsyncWrite after %s: callbacks=%d err=%v, %d bytes written", mu.name, calls, werr, len(vs.Out)-before)
			}
		}
	}
}

func c15DFS(tier string) *engine.DFS {
	dev := 2
	if tier == "thorough" {
		dev = 3
	}
	return &engine.DFS{Name: "violations@" + tier, Body: c15Body(tier), Threads: 16, ShardDepth: 2, MaxDeviations: dev, MaxPoints: 900}
}

func C15(tier string) *engine.Report {
	rep := engine.NewReport("C15", tier, "exploration")
	var tot engine.DFSTotals
	d := c15DFS(tier)
	tot.Add(d.Run(), rep)
	tot.Fill(rep, "conforming sessions from the C06 generator with exactly one injected violation (13 framing kinds, oversize frame, a 64-bit length with the top bit set, oversize message by fragments, continuation without start, data frame inside a fragmented message) at every frame position where it applies, "+
		"x 4 read APIs x inline/deferred, x all combinations of up to N deviations (fragmentation, control insertion, extra message, trailing close, cuts / byte-by-byte); every case is non-trivial (it contains a violation)", d.MaxDeviations)
	return rep
}

func C15Replay(v engine.Violation, log func(string)) *engine.Violation {
	tier := "quick"
	if len(v.Config) > 11 {
		tier = v.Config[11:]
	}
	return c15DFS(tier).ReplayChoices(v.Choices)
}
