package engine

import (
	"fmt"
	"reflect"
	"strings"
)

// Dump renders the complete concrete state reachable from v (structs, pointers, slices up to len, arrays,
// integers, bools, strings; unexported fields included) as a canonical string. Byte slices are rendered
// by length only when bytesAsLen is set (callers that compare content separately).
func Dump(v any, bytesAsLen bool) string {
	var sb strings.Builder
	dump(&sb, reflect.ValueOf(v), bytesAsLen, 0)
	return sb.String()
}

func dump(sb *strings.Builder, v reflect.Value, bl bool, depth int) {
	if depth > 12 {
		sb.WriteString("…")
		return
	}
	switch v.Kind() {
	case reflect.Invalid:
		sb.WriteString("nil")
	case reflect.Ptr, reflect.Interface:
		if v.IsNil() {
			sb.WriteString("nil")
			return
		}
		sb.WriteByte('&')
		dump(sb, v.Elem(), bl, depth+1)
	case reflect.Struct:
		sb.WriteByte('{')
		for i := 0; i < v.NumField(); i++ {
			if i > 0 {
				sb.WriteByte(' ')
			}
			sb.WriteString(v.Type().Field(i).Name)
			sb.WriteByte(':')
			dump(sb, v.Field(i), bl, depth+1)
		}
		sb.WriteByte('}')
	case reflect.Slice, reflect.Array:
		if v.Kind() == reflect.Slice && v.Type().Elem().Kind() == reflect.Uint8 && bl {
			fmt.Fprintf(sb, "bytes(%d)", v.Len())
			return
		}
		sb.WriteByte('[')
		for i := 0; i < v.Len(); i++ {
			if i > 0 {
				sb.WriteByte(' ')
			}
			dump(sb, v.Index(i), bl, depth+1)
		}
		sb.WriteByte(']')
	case reflect.Int, reflect.Int8, reflect.Int16, reflect.Int32, reflect.Int64:
		fmt.Fprintf(sb, "%d", v.Int())
	case reflect.Uint, reflect.Uint8, reflect.Uint16, reflect.Uint32, reflect.Uint64, reflect.Uintptr:
		fmt.Fprintf(sb, "%d", v.Uint())
	case reflect.Bool:
		fmt.Fprintf(sb, "%v", v.Bool())
	case reflect.String:
		fmt.Fprintf(sb, "%q", v.String())
	case reflect.Float32, reflect.Float64:
		fmt.Fprintf(sb, "%v", v.Float())
	case reflect.Func, reflect.Chan, reflect.Map, reflect.UnsafePointer:
		if v.IsNil() {
			sb.WriteString("nil")
		} else {
			sb.WriteString(v.Kind().String())
		}
	default:
		sb.WriteString(v.Kind().String())
	}
}
