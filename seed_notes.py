#!/usr/bin/env python3
"""Fills seeded/<name>/meta.json with what each independently written change is and what it needs to manifest,
and regenerates section (b) of MUTATIONS.md from the meta.json files (which hold the results of real runs)."""
import json, os, glob, re

WHAT = {
 "C01": ("internal/poll_linux.go: Poll reads slot.Events once per epoll event instead of before each of the read and write dispatch",
         "a read and a write both deferred on one object and reported in the same epoll event, and the read callback cancels or closes that object: the write callback runs twice / after Close"),
 "C02": ("file.go: a short AsyncReadAll re-arms with the size of the last partial read instead of the cumulative count",
         "one AsyncReadAll filled by three or more partial reads"),
 "C03": ("internal/poll_linux.go: DelRead decrements pending only after the early `return p.modify(...)`",
         "a read and a write deferred on the same descriptor, then the read completes / is cancelled / closed: Pending() stays one too high, RunPending never returns"),
 "C04": ("internal/timer_linux.go: the stale-event (EAGAIN) branch of the timer handler no longer re-registers the timerfd",
         "two timers expire in one poll batch and the first handler cancels and re-arms the second: the re-armed timer never fires"),
 "C05": ("internal/poll_linux.go: dispatch takes the batch as `handlers := p.posts; p.posts = p.posts[:0]` (shared backing array)",
         "a batch of >= 2 handlers and more than i+1 Posts arriving while handler i runs: a handler is overwritten (never runs), another runs twice"),
 "C06": ("codec/websocket/stream.go: after a control frame asyncNextMessage restarts with fresh accumulation state",
         "AsyncNextMessage + fragmented message + ping/pong between two fragments"),
 "C07": ("codec/websocket/frame_codec.go: the mask key is only read when the payload is non-empty",
         "a masked frame with an empty payload: 4 key bytes are parsed as the next header"),
 "C08": ("codec/websocket/stream.go: the async read path reports a transport EOF as abnormal closure only in StateActive",
         "local Close (or protocol violation), then the peer drops TCP without a Close, read through AsyncNextFrame/AsyncNextMessage"),
 "C09": ("byte_buffer.go: Discard's compacting copy stops at b.ri instead of b.wi",
         "Discard/DiscardAll while written-but-uncommitted bytes exist, then Commit and read them"),
 "C10": ("bip_buffer.go: Commit's empty-buffer branch folded into the append branch",
         "Claim, Consume of everything, Commit — with a claim that does not start at offset 0"),
 "C11": ("bytes/mirrored_buffer.go: Commit advances the tail before clamping n to the free space",
         "Commit(n) with n larger than the free space"),
 "C12": ("socket.go: SendTo copies the destination IP only for plain IPv4 addresses (IPv4-mapped ones keep the previous destination)",
         "a write to an IPv4-mapped destination (the form net.UDPAddr.AddrPort() yields), after a write to another address or as first write"),
 "C13": ("file.go: the write-completion handler deregisters the slot whenever the write bit is clear (always)",
         "read + write deferred on a conn, the write completes first, no other reference, GC: the conn is collected with the read in flight"),
 "C14": ("file.go: asyncWrite initialises the write reactor only in the inline branch",
         "a write issued at the dispatch limit resumes with the previous write's payload and callback (or panics on a nil callback)"),
 "C15": ("codec/websocket/stream.go: after a control frame asyncNextMessage passes !f.IsFIN() instead of the carried continuation flag",
         "AsyncNextMessage, data frame with FIN=0, control frame, then a NEW data frame: both payloads are delivered as one message"),
 "C16": ("codec/websocket/frame.go: `n > 125` became `n >= 125` in setPayloadLength",
         "a payload of exactly 125 bytes is written with the 16-bit length form"),
 "C17": ("codec/websocket/stream.go: `s.flushWaiters = nil` became `s.flushWaiters[:0]` (waiter queue aliases the slice being iterated)",
         "a flush completes with a waiter queued and an earlier callback issues two flush requests re-entrantly: a write callback is lost, another runs twice"),
 "C18": ("codec/websocket/stream.go: the search for the blank line resumes from n-2 instead of n-3",
         "the response is cut exactly before its final \\n (byte-wise delivery or a cut at the last byte)"),
 "C19": ("byte_buffer.go: WriteTo returns on a writer error without consuming what the writer had accepted",
         "a blocking WriteNext whose transport accepts part of the item and then reports would-block; the next write re-sends the prefix"),
 "C20": ("slot_offsetter.go: `slot.Index >= size` became `>` in SlotOffsetter.Add",
         "a never-draining sequencer and a push whose offset index equals maxBytes exactly: a later Pop panics"),
 "C01b": ("internal/poll_linux.go: the forced dispatch tests EPOLLRDHUP|EPOLLHUP instead of EPOLLERR|EPOLLHUP",
          "a write deferred on a FULL pipe whose reader then goes away (EPOLLERR alone): the callback never runs"),
 "C02b": ("async_adapter.go: the error check moved above `count += n` in asyncReadNow/asyncWriteNow",
          "the wrapped io.ReadWriter returns n>0 together with an error: those n bytes are missing from the reported count"),
 "C03b": ("internal/poll_linux.go: Poll wraps the epoll_wait errno in os.NewSyscallError, so io.go's `err == syscall.EINTR` no longer matches",
          "a signal delivered to the loop thread while it sleeps in epoll_wait: RunOne/RunOneFor/RunPending report an error"),
 "C04b": ("timer.go: Cancel sets the `cancelled` flag only when the timer is not armed",
          "a ScheduleRepeating callback that re-schedules the same timer and then cancels it in the same invocation: the repetition continues"),
 "C05b": ("internal/poll_linux.go: dispatch drains the eventfd after swapping the buffers instead of before",
          "a Post whose append lands after the swap and whose eventfd write lands before the drain: the wake-up is swallowed, the handler stays queued"),
 "C06b": ("codec/websocket/frame_codec.go: the extended-length bytes are counted only after the PrepareRead that should make them available",
          "an earlier frame left non-zero bytes behind, the next frame uses the 64-bit length class and the segment ends inside its length field"),
 "C07b": ("codec/websocket/frame.go: PayloadLength clears the top bit of a 64-bit length",
          "a header declaring 2^63+k is yielded as a k-byte frame and swallows the following bytes"),
 "C08b": ("codec/websocket/stream.go: AsyncClose sets StateClosedByUs in the flush-completion callback",
          "an AsyncWrite or second AsyncClose issued before the Close frame's write has completed is accepted"),
 "C09b": ("byte_buffer.go: ShrinkTo uses Len() instead of WriteLen()",
          "ShrinkTo on a buffer that holds saved or committed bytes over-shrinks the write area"),
 "C10b": ("bip_buffer.go: the wrapped branch of Claim computes the free space from wrappedHead instead of wrappedTail",
          "a claim made while the buffer is wrapped that asks for more than the gap before the head chunk"),
 "C11b": ("bytes/mirrored_buffer.go: Consume of more than is used calls Reset()",
          "over-consume with the tail not at 0: the next claims overlap what is committed afterwards"),
 "C12b": ("multicast/peer.go: SetLoop returns early when the requested value equals the cached one",
          "SetLoop(false) as the first loop setter on a fresh peer (whose cached value is the inverted kernel value) does nothing"),
 "C13b": ("internal/poll_linux.go: NewPoller's cleanup moved into a defer registered after the eventfd is created",
          "exactly one free descriptor slot when NewIO is called: epoll_create succeeds, eventfd fails, the epoll descriptor leaks"),
 "C14b": ("listen_conn.go: `Dispatched >= MaxCallbackDispatch` became `>` in AsyncAccept",
          "an accept with a queued connection issued as the 33rd nested completion runs inline: 34 callbacks nested"),
 "C15b": ("codec/websocket/stream.go: blocking NextMessage adds the fragment length after the size check",
          "a fragmented message whose total crosses the maximum only with the final fragment, read with NextMessage into a larger buffer"),
 "C16b": ("codec/websocket/stream.go: AsyncWrite compares with DefaultMaxMessageSize instead of the configured maximum",
          "SetMaxMessageSize(N != 512 KiB) and an AsyncWrite between N and 512 KiB"),
 "C17b": ("codec/websocket/stream.go: AsyncClose calls asyncFlush directly, bypassing the flush guard",
          "AsyncClose while another flush (an AsyncWrite or the automatic Pong) is in flight: the first completion is swallowed and `flushing` stays true"),
 "C18b": ("codec/websocket/stream.go: AsyncHandshake no longer calls reset()",
          "a second, asynchronous handshake on a stream whose previous session left unread bytes behind"),
 "C19b": ("codec/frame/frame.go: Decode reserves payloadLen - ReadLen - WriteLen instead of HeaderLen + payloadLen on ErrNeedMore",
          "payload sizes within 3 bytes below a capacity the read buffer has or grows to exactly (509..512, 2045..2048, ...): the next read gets an empty slice and reports EOF"),
 "C20b": ("slot_sequencer.go: Push adds the slot length to the byte counter whenever err == nil (also for a refused duplicate)",
          "pushing a sequence number that is already parked"),
 "C01c": ("file.go: cancelReads/cancelWrites invoke the handler with ErrCancelled first and remove the interest afterwards",
          "the cancellation callback re-issues the same direction and that operation cannot complete inline: the trailing removal takes the interest of the re-issued operation, which never completes"),
 "C02c": ("file.go: asyncWrite initialises the write reactor only in the inline branch (third variant: the dispatch-limit branch parks the write with the previous write's buffer, All flag and callback)",
          "a write issued inside 32 nested immediate completions whose buffer differs from the previous write's: the previous buffer goes out twice, the new one never"),
 "C03c": ("internal/poll_linux.go: the rollback of a failed epoll_ctl in setRW clears the slot's events instead of restoring the previous ones",
          "an operation of the other direction already deferred on the slot AND the new registration fails (descriptor closed underneath): the waiting operation stays counted but can no longer be cancelled or closed; Pending() never returns to 0"),
 "C04c": ("timer.go: ScheduleOnce's guard `state == ready` became `state != scheduled` (a closed timer takes the scheduling path)",
          "ScheduleOnce with a non-positive delay on a closed timer runs the callback and returns nil; a repeating callback that closes its timer and opens a new one (same descriptor number) re-arms the new timer's descriptor under the old slot"),
 "C05c": ("internal/poll_linux.go: DelWrite decrements the pending counter with a plain `p.pending--` (every other access is atomic)",
          "a Post from another goroutine lands between the load and the store while the loop disarms a write interest: Pending() ends too low for good"),
 "C06c": ("codec/websocket/stream.go: blocking NextMessage latches the message type with `if readBytes == 0`",
          "a fragmented message whose leading fragments are empty, read through the blocking NextMessage: the type comes from a continuation frame"),
 "C07c": ("codec/websocket/frame.go: setPayloadLength clears the 7 length bits only in the <=125 branch",
          "a Frame reused without Reset: SetPayload with 126..65535 bytes after a payload whose marker was odd (an odd length <=125 or any 64-bit-class length): marker 127 with 2 length bytes"),
 "C08c": ("codec/websocket/stream.go: canRead rewritten as a negative list that forgets StateCloseAcked",
          "local Close, the peer's Close is read (close acknowledged), one more read: delivers later data / fabricates a 1006 close / moves to Terminated instead of reporting end of stream"),
 "C09c": ("byte_buffer.go: PrepareRead computes the missing amount as n - ri instead of n - ReadLen() (forgets the save area)",
          "saved and not yet discarded bytes AND a PrepareRead that needs to commit: returns nil having committed too little"),
 "C10c": ("bip_buffer.go: Commit's wrapped branch adds n instead of the clamped amount",
          "the claim lies in the wrapped region AND Commit(n) is larger than the claim: never-committed bytes become visible, the wrapped region overlaps the head chunk"),
 "C11c": ("bytes/mirrored_buffer.go: the constructor unlinks the backing file only after both remaps succeeded",
          "a constructor failure after the file exists (the kernel refuses the 2*size reservation, size >= 2^46): a /dev/shm file is left behind"),
 "C12c": ("multicast/peer.go: AsyncRead records the buffer only where asyncReadNow defers on would-block",
          "more than 32 datagrams queued, reads re-armed from the completion callback with a different buffer each: the read issued at the dispatch limit fills a stale (or nil) buffer"),
 "C13c": ("async_adapter.go: Close goes through the owner only if it is a net.Conn (before: any io.Closer)",
          "an adapter over a closable non-net.Conn owner (*os.File): adapter.Close raw-closes the number, a new object reuses it, the owner's Close closes the new object's descriptor"),
 "C14c": ("multicast/peer.go: the inline-completion wrapper of UDPPeer.AsyncWrite returns before `Dispatched--` when the write failed",
          "a multicast-peer write that completes at once with an error (oversized datagram): every such write leaves IO.Dispatched one higher for good"),
 "C15c": ("codec/websocket/rfc6455.go + stream.go: IsControl() is `op & 0x8 != 0` and handleControlFrame's default branch no longer reports an error",
          "a frame with reserved opcode 0xB..0xF, FIN set, payload <=125: accepted as a no-op control frame by all four read APIs"),
 "C16c": ("codec/websocket/stream.go: AsyncClose calls asyncFlush directly (bypasses the flush serialisation)",
          "a transport write of a frame is still in flight (partial-write transport) when AsyncClose is called: a second transport write starts over the same buffer region"),
 "C17c": ("async_adapter.go: a short write re-arms with the size of the last piece instead of the cumulative offset",
          "one AsyncWriteAll written in three or more pieces through an io.ReadWriter that reports short writes: already-sent bytes are repeated on the wire, or the write never finishes"),
 "C18c": ("codec/websocket/stream.go: the Sec-WebSocket-Accept comparison became strings.EqualFold",
          "a 101 response whose accept value equals the right one except for letter case is accepted"),
 "C19c": ("codec/frame/frame.go: HeaderLen + payloadLen is computed in uint32 before the limit check",
          "a declared length of 0xfffffffc..0xffffffff wraps to 0..3: the limit check passes and slicing panics"),
 "C20c": ("sequenced_slots.go: the slot-capacity check runs only on the append path of Push",
          "the container holds exactly maxSlots slots AND the pushed number sorts below the largest parked one: accepted beyond capacity"),
}

STRENGTH = {
 "C01": "first-class `write-deferred` action (a read and a write in flight on one object no longer needs a deviation)",
 "C03": "same driver change as C01; the first run reported it only as a worker hang inside RunPending",
 "C04": "first run ended in a replay divergence (exit 2): handler behaviour `cancel + re-arm with 1 ms` added (not due within the batch, awaited afterwards), diverged prefixes are now counted instead of aborting the run",
 "C11": "first run did not finish (a drifting internal index makes the state space an endless chain): the invariant now observes the claim position in every state, plus a depth cap and one wall-clock budget per check",
 "C12": "would have been missed: writes now use plain and IPv4-mapped destinations and an earlier write to another address",
 "C17": "MISSED at first: application writes may now overlap (the oracle only demands exactly-once callbacks and wire consistency)",
 "C19": "would have been missed: blocking writes now hit would-block after k bytes of an item",
 "C04b": "would have been missed: `schedule inside the repeating callback, then Cancel` added as a handler behaviour",
 "C06b": "would have been missed: later messages may use the 64-bit length class; C07 got `complete frame + incomplete longer frame` inputs",
 "C08b": "would have been missed: four back-to-back pairs of asynchronous calls issued while the transport still holds the first write",
 "C18b": "would have been missed: the dropped earlier session now leaves half a frame unread in the stream",
 "C19b": "would have been missed: every payload size 0..1100 and around each capacity step is read back once",
 "C02c": "reported only as a crash of the harness (exit 2, no VIOLATION line): a panic raised by the library outside a guarded region is now a violation of the property being checked; chains of 33/34/70 reads or writes with distinct buffers issued from the completion callback (crossing the dispatch limit) added",
 "C03c": "MISSED at first: new action `descriptor closed underneath while the other direction is already waiting in the poller` (the number is re-occupied by a placeholder), after which Cancel and Close stay available on that object",
 "C04c": "caught as it stood (non-positive delay on a closed timer); handler behaviour `close itself + create and schedule a new timer` (descriptor number reused inside the callback) added anyway",
 "C05c": "MISSED at first: the loop-side activity between polls now also arms/cancels a FIFO write and lets a write interest be disarmed inside Poll (before: only a FIFO read)",
 "C07c": "MISSED at first: round trips on a Frame that carried one or two earlier payloads of every length class (SetPayload without Reset)",
 "C11c": "MISSED at first: 10 constructions with invalid and huge sizes (2^36..2^62; refused by the kernel at the address-space reservation, or granted and destroyed) checked against the descriptor census, /dev/shm and the mappings",
 "C12c": "caught as it stood (the first read issued at the limit on a fresh peer reports EOF); chains of 34/40/70 reads over queued datagrams with a ring of 2/4/3 buffers added, which also sees the stale-buffer form",
 "C13c": "MISSED at first: object kind `adapter over an *os.File` (a closable owner that is not a net.Conn) in the close family",
 "C14c": "MISSED at first: five operation kinds that complete at once with an error (end of stream on a conn and a FIFO, write on a reset conn, oversized datagram on a packet conn and a multicast peer) in the cycles: 4368 cycles instead of 1463",
 "C16c": "MISSED at first: as a deviation a deferred transport write stays in flight while the next asynchronous operation starts (before: the transport completed every write before the next operation)",
 "C17c": "MISSED at first: the harness set SO_SNDBUF on a descriptor it had already closed, so the `large` write never was partial; second transport behind the adapter: the raw descriptor with a minimal send buffer, whose Write is short (a 48 KB message goes out in a dozen pieces)",
 "C18c": "MISSED at first: near misses of the accept value (case-swapped, lower-cased, truncated, suffixed) among the response variants",
 "C19c": "caught as it stood (0xffffffff was among the prefixes); the arithmetic boundaries around the limit, 2^31 and 2^32-5..2^32-1 added",

}


def main():
    rows = []
    for d in sorted(glob.glob('/verif/seeded/C*')):
        name = os.path.basename(d)
        mp = os.path.join(d, 'meta.json')
        if not os.path.exists(mp):
            continue
        m = json.load(open(mp))
        if name in WHAT:
            m['change'] = WHAT[name][0]
            m['needs_to_manifest'] = WHAT[name][1]
        m['property'] = name[:3]
        if name in STRENGTH:
            m['strengthened'] = STRENGTH[name]
        json.dump(m, open(mp, 'w'), indent=1)
        res = m.get('checks_run', [])
        last = {}
        for r in res:
            last[r['check']] = r
        verdicts = []
        for c, r in sorted(last.items()):
            v = 'caught' if r['exit'] == 1 else ('MISSED' if r['exit'] == 0 else f"rc={r['exit']}")
            verdicts.append(f"{c} {r['tier']}: {v} {r['signatures'].strip()}")
        conf = m.get('confirmed', {})
        ok = conf.get('demo_fails_with_change') and conf.get('demo_passes_without_change')
        rows.append(f"| {name} | {m.get('change','')} | {m.get('needs_to_manifest','')} | {'yes' if ok else 'NO'} | {'; '.join(verdicts)} | {m.get('strengthened','')} |")
    head = ['', '## (b) Independently written changes (`seeded/<name>/`, `./seedcheck2.sh`)', '',
            'Each change was written by a fresh sub-agent that saw only the property text and a scratch worktree; it compiles, passes the repository suite and comes with a demonstration. "confirmed" = the demonstration fails with the change and passes without it when re-run here in a scratch worktree. The check column is the result of the run recorded in `meta.json` (the patch applied to `/repo`, the property\'s check run, the tree restored).', '',
            '| name | change | needs to manifest | confirmed | check result | what was strengthened |', '|---|---|---|---|---|---|']
    p = '/verif/MUTATIONS.md'
    s = open(p).read()
    s = s.split('\n## (b) ')[0].rstrip('\n') + '\n' + '\n'.join(head + rows) + '\n'
    open(p, 'w').write(s)
    print(len(rows), 'seeds listed')


main()
