// verif <Cxx> quick|thorough            run a check, write evidence, print VIOLATION lines, exit 0/1
// verif <Cxx> replay <file>             replay one stored violation verbosely, exit 1 if it still fails
package main

import (
	"encoding/json"
	"fmt"
	"net"
	"os"
	"time"
	"runtime/debug"
	"runtime/pprof"

	"verifmc/checks"
	"verifmc/engine"
)

func main() {
	if len(os.Args) < 3 {
		fmt.Fprintln(os.Stderr, "usage: verif <Cxx> quick|thorough | verif <Cxx> replay <file>")
		os.Exit(2)
	}
	debug.SetGCPercent(400)
	// Objects that own a sync.Pool (every websocket.Stream does) stay reachable from the runtime's pool registry for
	// two collections after their last use; with a generous GC percentage the heap of a long run that creates
	// millions of them then doubles from collection to collection. A soft limit makes the collector run often
	// enough near it for those generations to be dropped.
	debug.SetMemoryLimit(3 << 30)
	if f := os.Getenv("VERIF_HEAPPROF"); f != "" {
		// diagnostic: write a heap profile after 30 s
		go func() {
			time.Sleep(30 * time.Second)
			if w, err := os.Create(f); err == nil {
				pprof.WriteHeapProfile(w)
				w.Close()
			}
		}()
	}
	// Make the Go runtime create its own netpoller descriptors (epoll + eventfd, created lazily by the
	// first timer) now, before any check reasons about descriptor numbers.
	time.Sleep(time.Millisecond)
	if c, err := net.Listen("tcp", "127.0.0.1:0"); err == nil {
		c.Close()
	}
	id, mode := os.Args[1], os.Args[2]
	c, ok := checks.Registry[id]
	if !ok {
		fmt.Fprintln(os.Stderr, "unknown check", id)
		os.Exit(2)
	}
	if engine.MaybeWorker(id) {
		return
	}
	switch mode {
	case "quick", "thorough":
		os.Exit(c.Run(mode).Finish())
	case "replay":
		if len(os.Args) < 4 {
			fmt.Fprintln(os.Stderr, "replay needs a file")
			os.Exit(2)
		}
		b, err := os.ReadFile(os.Args[3])
		if err != nil {
			fmt.Fprintln(os.Stderr, err)
			os.Exit(2)
		}
		var v engine.Violation
		if err := json.Unmarshal(b, &v); err != nil {
			fmt.Fprintln(os.Stderr, err)
			os.Exit(2)
		}
		if c.Replay == nil {
			fmt.Fprintln(os.Stderr, "no replay for", id)
			os.Exit(2)
		}
		got := c.Replay(v, func(s string) { fmt.Println(s) })
		if got != nil {
			fmt.Printf("VIOLATION property=%s replay=%s\n  sig=%s\n  %s\n", id, os.Args[3], got.Sig, got.Msg)
			os.Exit(1)
		}
		fmt.Println("replay: no violation")
	default:
		fmt.Fprintln(os.Stderr, "unknown mode", mode)
		os.Exit(2)
	}
}
