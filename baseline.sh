#!/bin/bash
# Runs the repository's own test suite with the verif guard OFF and compares with BASELINE.json's stable_pass list.
cd /repo || exit 2
export GOFLAGS=-mod=mod GOPROXY=off
unset GOSUMDB GOTOOLCHAIN
out=$(mktemp /verif/.scratch/baseline.XXXXXX.json)
mkdir -p /verif/.scratch
go test -json -vet=off -count=1 -timeout 25m ./... > "$out" 2>/dev/null
python3 - "$out" <<'PY'
import json,sys
base=json.load(open('/root/.vp/BASELINE.json'))['stable_pass']
res={}
for l in open(sys.argv[1]):
    try: d=json.loads(l)
    except: continue
    if d.get('Test') and d.get('Action') in('pass','fail','skip') and '/' not in d['Test']:
        res[d['Package']+'::'+d['Test']]=d['Action']
bad=[t for t in base if res.get(t)!='pass']
print(f"baseline: {len(base)-len(bad)}/{len(base)} stable tests pass")
for t in bad: print("  NOT PASSING:",t,res.get(t))
sys.exit(1 if bad else 0)
PY
rc=$?
rm -f "$out"
exit $rc
