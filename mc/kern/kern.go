// Package kern holds the raw-syscall side of the kernel-backed checks: peers of sonic objects, the
// independent readiness oracle (poll(2)), descriptor census, and helpers to await kernel state instead of
// predicting it.
package kern

import (
	"fmt"
	"os"
	"sort"
	"strconv"
	"strings"
	"syscall"
	"time"
	"unsafe"

	"golang.org/x/sys/unix"
)

// Poll is poll(2) on one descriptor; returns revents.
func Poll(fd int, events int16, timeoutMs int) int16 {
	fds := []unix.PollFd{{Fd: int32(fd), Events: events}}
	for {
		_, err := unix.Poll(fds, timeoutMs)
		if err == syscall.EINTR {
			continue
		}
		if err != nil {
			return 0
		}
		return fds[0].Revents
	}
}

const (
	ReadReady  = unix.POLLIN | unix.POLLHUP | unix.POLLERR | unix.POLLRDHUP
	WriteReady = unix.POLLOUT | unix.POLLHUP | unix.POLLERR
)

// WouldNotBlockRead: a read(2)/accept(2)/recvfrom(2) on fd would return at once.
func WouldNotBlockRead(fd int) bool {
	return Poll(fd, unix.POLLIN|unix.POLLRDHUP, 0)&ReadReady != 0
}

func WouldNotBlockWrite(fd int) bool {
	return Poll(fd, unix.POLLOUT, 0)&WriteReady != 0
}

// Readable: the descriptor (e.g. an epoll fd, a timerfd, an eventfd) reports POLLIN.
func Readable(fd int) bool { return Poll(fd, unix.POLLIN, 0)&unix.POLLIN != 0 }

// AwaitReadable blocks until fd reports POLLIN or the guard expires.
func AwaitReadable(fd int, guard time.Duration) bool {
	return Poll(fd, unix.POLLIN, int(guard.Milliseconds()))&(unix.POLLIN|unix.POLLHUP|unix.POLLERR) != 0
}

// AwaitReadReady blocks until a read on fd would not block.
func AwaitReadReady(fd int, guard time.Duration) bool {
	return Poll(fd, unix.POLLIN|unix.POLLRDHUP, int(guard.Milliseconds()))&ReadReady != 0
}

// Inq returns the number of bytes queued for reading (FIONREAD).
func Inq(fd int) int {
	n, err := unix.IoctlGetInt(fd, unix.TIOCINQ)
	if err != nil {
		return -1
	}
	return n
}

// Outq returns the bytes not yet acknowledged/sent (SIOCOUTQ).
func Outq(fd int) int {
	n, err := unix.IoctlGetInt(fd, unix.TIOCOUTQ)
	if err != nil {
		return -1
	}
	return n
}

// AwaitInq waits until at least n bytes are queued on fd.
func AwaitInq(fd, n int, guard time.Duration) bool {
	dl := time.Now().Add(guard)
	for {
		if Inq(fd) >= n {
			return true
		}
		if time.Now().After(dl) {
			return false
		}
		Poll(fd, unix.POLLIN, 1)
	}
}

// FdKind describes what a descriptor number denotes right now ("" if closed).
func FdKind(fd int) string {
	l, err := os.Readlink("/proc/self/fd/" + strconv.Itoa(fd))
	if err != nil {
		return ""
	}
	return l
}

// Identity of the open file description behind fd: device, inode and type bits.
func Identity(fd int) string {
	var st syscall.Stat_t
	if err := syscall.Fstat(fd, &st); err != nil {
		return ""
	}
	return fmt.Sprintf("%d:%d:%o", st.Dev, st.Ino, st.Mode&syscall.S_IFMT)
}

// Census returns descriptor number -> identity for every open descriptor. dirfd is a descriptor on
// /proc/self/fd opened beforehand (so that the census needs no free slot); it is excluded.
type CensusT map[int]string

func OpenCensusDir() int {
	fd, err := syscall.Open("/proc/self/fd", syscall.O_RDONLY|syscall.O_DIRECTORY|syscall.O_CLOEXEC, 0)
	if err != nil {
		panic(err)
	}
	return fd
}

func Census(dirfd int) CensusT {
	out := CensusT{}
	syscall.Seek(dirfd, 0, 0)
	buf := make([]byte, 1<<16)
	for {
		n, err := syscall.ReadDirent(dirfd, buf)
		if n <= 0 || err != nil {
			break
		}
		names := make([]string, 0, 64)
		_, _, names = syscall.ParseDirent(buf[:n], -1, names)
		for _, nm := range names {
			fd, err := strconv.Atoi(nm)
			if err != nil || fd == dirfd {
				continue
			}
			if id := Identity(fd); id != "" {
				out[fd] = id
			}
		}
	}
	return out
}

// Diff describes how b differs from a.
func (a CensusT) Diff(b CensusT) (added, removed, changed []int) {
	for fd, id := range b {
		if old, ok := a[fd]; !ok {
			added = append(added, fd)
		} else if old != id {
			changed = append(changed, fd)
		}
	}
	for fd := range a {
		if _, ok := b[fd]; !ok {
			removed = append(removed, fd)
		}
	}
	sort.Ints(added)
	sort.Ints(removed)
	sort.Ints(changed)
	return
}

func DescribeFds(fds []int) string {
	var sb strings.Builder
	for _, fd := range fds {
		fmt.Fprintf(&sb, "%d(%s) ", fd, FdKind(fd))
	}
	return sb.String()
}

// ---- raw peers --------------------------------------------------------------------------------------

var loopCounter uint32

// NextLoopback spreads TCP endpoints over 127.0.0.0/8 so that many short connections do not exhaust
// the ephemeral ports of one address pair.
func NextLoopback() [4]byte {
	loopCounter++
	c := loopCounter
	return [4]byte{127, byte(1 + (c>>14)%250), byte((c >> 7) % 128), byte(1 + c%127)}
}

// TCPListener: raw listening socket on a fresh loopback address, port chosen by the kernel.
func TCPListener() (fd int, addr [4]byte, port int, err error) {
	fd, err = syscall.Socket(syscall.AF_INET, syscall.SOCK_STREAM|syscall.SOCK_CLOEXEC, 0)
	if err != nil {
		return
	}
	syscall.SetsockoptInt(fd, syscall.SOL_SOCKET, syscall.SO_REUSEADDR, 1)
	addr = NextLoopback()
	if err = syscall.Bind(fd, &syscall.SockaddrInet4{Addr: addr}); err != nil {
		syscall.Close(fd)
		return
	}
	if err = syscall.Listen(fd, 16); err != nil {
		syscall.Close(fd)
		return
	}
	sa, _ := syscall.Getsockname(fd)
	port = sa.(*syscall.SockaddrInet4).Port
	return
}

func AddrString(a [4]byte, port int) string {
	return fmt.Sprintf("%d.%d.%d.%d:%d", a[0], a[1], a[2], a[3], port)
}

// AcceptRaw accepts one connection (blocking up to guard).
func AcceptRaw(lfd int, guard time.Duration) (int, error) {
	if !AwaitReadable(lfd, guard) {
		return -1, fmt.Errorf("accept: nothing to accept")
	}
	fd, _, err := syscall.Accept4(lfd, syscall.SOCK_CLOEXEC|syscall.SOCK_NONBLOCK)
	return fd, err
}

// ConnectRaw connects a raw non-blocking-after-connect TCP socket to addr:port.
func ConnectRaw(addr [4]byte, port int) (int, error) {
	fd, err := syscall.Socket(syscall.AF_INET, syscall.SOCK_STREAM|syscall.SOCK_CLOEXEC, 0)
	if err != nil {
		return -1, err
	}
	if err := syscall.Connect(fd, &syscall.SockaddrInet4{Addr: addr, Port: port}); err != nil {
		syscall.Close(fd)
		return -1, err
	}
	syscall.SetNonblock(fd, true)
	return fd, nil
}

// Reset closes fd so that the peer gets an RST (SO_LINGER 0).
func Reset(fd int) {
	syscall.SetsockoptLinger(fd, syscall.SOL_SOCKET, syscall.SO_LINGER, &syscall.Linger{Onoff: 1, Linger: 0})
	syscall.Close(fd)
}

// Abort closes fd without TIME_WAIT (used in teardown).
func Abort(fd int) {
	if fd >= 0 {
		Reset(fd)
	}
}

// SocketPair returns a connected non-blocking AF_UNIX stream pair.
func SocketPair() (a, b int, err error) {
	p, err := syscall.Socketpair(syscall.AF_UNIX, syscall.SOCK_STREAM|syscall.SOCK_CLOEXEC|syscall.SOCK_NONBLOCK, 0)
	if err != nil {
		return -1, -1, err
	}
	return p[0], p[1], nil
}

// Pipe returns a non-blocking pipe with the given capacity in bytes (0 = default).
func Pipe(capacity int) (r, w int, err error) {
	var p [2]int
	if err = syscall.Pipe2(p[:], syscall.O_NONBLOCK|syscall.O_CLOEXEC); err != nil {
		return
	}
	if capacity > 0 {
		unix.FcntlInt(uintptr(p[1]), unix.F_SETPIPE_SZ, capacity)
	}
	return p[0], p[1], nil
}

// UDPSocket returns a raw non-blocking UDP socket bound to 127.0.0.1:0 and its port.
func UDPSocket() (fd, port int, err error) {
	fd, err = syscall.Socket(syscall.AF_INET, syscall.SOCK_DGRAM|syscall.SOCK_CLOEXEC|syscall.SOCK_NONBLOCK, 0)
	if err != nil {
		return
	}
	if err = syscall.Bind(fd, &syscall.SockaddrInet4{Addr: [4]byte{127, 0, 0, 1}}); err != nil {
		syscall.Close(fd)
		return
	}
	sa, _ := syscall.Getsockname(fd)
	port = sa.(*syscall.SockaddrInet4).Port
	return
}

func Gettid() int { return syscall.Gettid() }

// Tgkill sends sig to one thread of this process.
func Tgkill(tid int, sig syscall.Signal) error {
	_, _, e := syscall.RawSyscall(syscall.SYS_TGKILL, uintptr(syscall.Getpid()), uintptr(tid), uintptr(sig))
	if e != 0 {
		return e
	}
	return nil
}

// ThreadWchan returns the kernel function a thread sleeps in ("" when running).
func ThreadWchan(tid int) string {
	b, _ := os.ReadFile(fmt.Sprintf("/proc/self/task/%d/wchan", tid))
	return string(b)
}

// ThreadState returns the state letter of /proc/self/task/<tid>/stat.
func ThreadState(tid int) byte {
	b, err := os.ReadFile(fmt.Sprintf("/proc/self/task/%d/stat", tid))
	if err != nil {
		return 0
	}
	i := strings.LastIndexByte(string(b), ')')
	if i < 0 || i+2 >= len(b) {
		return 0
	}
	return b[i+2]
}

var _ = unsafe.Sizeof(0)
