package checks

// C09 — ByteBuffer behaves as three adjacent FIFO regions (saved, readable, written-but-uncommitted).
//
// Engine E2. State = a real sonic.ByteBuffer reached by replaying the op path, next to the reference
// model: three byte slices + the list of live Slots (maintained by the harness exactly as a caller has
// to: after Discard of a slot every slot that lies behind it moves down by the discarded length).
// Alphabet: the whole public API with the integer domains {MinInt,-1,0,1,2,3,len,len+1,MaxInt} where
// "len" is the length of the region the argument refers to. Two configurations: NewByteBuffer()
// (capacity 512) and the zero value (capacity grows 0 -> 8 -> 16 ..., so every reallocation is crossed
// with bytes present in all three regions). Operations that would make saved+readable+written exceed
// the bound are disabled.
//
// Key = (slot lengths in save order, len(readable), len(written), min(Reserved(),12)). Byte values are
// not in the key: all bytes are fresh tags, the implementation never branches on byte values, and the
// invariant has verified that memory equals the model in all three regions (the written region is read
// through the spare capacity of Data()). Spare capacity above 12 is indistinguishable for every
// enabled operation: arguments are <= 3, relative to a region length, or huge (and then behave the same
// for every capacity); ClaimFixed(Reserved()) style arguments are disabled above the length bound.

import (
	"errors"
	"fmt"
	"io"
	"math"
	"strings"

	"github.com/talostrading/sonic"
	"verifmc/engine"
)

type bbState struct {
	b       *sonic.ByteBuffer
	saved   []byte
	read    []byte
	write   []byte
	slots   []sonic.Slot // live slots, save order
	next    byte
	lenMax  int
	lastErr string
}

func (s *bbState) total() int { return len(s.saved) + len(s.read) + len(s.write) }

func (s *bbState) fresh(k int) []byte {
	out := make([]byte, k)
	for i := range out {
		s.next++
		if s.next == 0 {
			s.next = 1
		}
		out[i] = s.next
	}
	return out
}

func bbViol(sig, format string, a ...any) *engine.Violation {
	return &engine.Violation{Sig: sig, Msg: fmt.Sprintf(format, a...)}
}

func (s *bbState) key() string {
	var sb strings.Builder
	for _, sl := range s.slots {
		fmt.Fprintf(&sb, "%d,", sl.Length)
	}
	r := s.b.Reserved()
	if r > 12 {
		r = 12
	}
	fmt.Fprintf(&sb, "|%d|%d|%d", len(s.read), len(s.write), r)
	return sb.String()
}

func (s *bbState) inv() *engine.Violation {
	b := s.b
	if b.SaveLen() != len(s.saved) || b.ReadLen() != len(s.read) || b.WriteLen() != len(s.write) {
		return bbViol("bytebuffer/region-lengths", "SaveLen/ReadLen/WriteLen = %d/%d/%d, model %d/%d/%d", b.SaveLen(), b.ReadLen(), b.WriteLen(), len(s.saved), len(s.read), len(s.write))
	}
	if b.Len() != s.total() {
		return bbViol("bytebuffer/len-sum", "Len()=%d but regions add up to %d", b.Len(), s.total())
	}
	if string(b.Saved()) != string(s.saved) {
		return bbViol("bytebuffer/saved-content", "Saved()=%v model %v", b.Saved(), s.saved)
	}
	d := b.Data()
	if string(d) != string(s.read) {
		return bbViol("bytebuffer/read-content", "Data()=%v model %v", d, s.read)
	}
	if cap(d) < len(d)+len(s.write) {
		return bbViol("bytebuffer/write-area-outside-capacity", "write area of %d bytes does not fit behind Data() (cap %d, len %d)", len(s.write), cap(d), len(d))
	}
	w := d[len(d) : len(d)+len(s.write)]
	if string(w) != string(s.write) {
		return bbViol("bytebuffer/write-content", "write area holds %v model %v", w, s.write)
	}
	if b.Reserved() < 0 || b.Cap() < b.Len() {
		return bbViol("bytebuffer/capacity", "Reserved()=%d Cap()=%d Len()=%d", b.Reserved(), b.Cap(), b.Len())
	}
	for i, sl := range s.slots {
		got := b.SavedSlot(sl)
		want := s.saved[sl.Index : sl.Index+sl.Length]
		if string(got) != string(want) {
			return bbViol("bytebuffer/saved-slot-content", "slot %d %+v addresses %v, the bytes saved under it are %v", i, sl, got, want)
		}
	}
	return nil
}

type bbOp struct {
	label string
	do    func(s *bbState) (bool, *engine.Violation)
}

var errScripted = errors.New("scripted transport error")

type scriptedReader struct {
	s   *bbState
	k   int
	err error
	put []byte
}

func (r *scriptedReader) Read(p []byte) (int, error) {
	if r.err != nil {
		return 0, r.err
	}
	k := r.k
	if k > len(p) {
		k = len(p)
	}
	r.put = r.s.fresh(k)
	copy(p, r.put)
	return k, nil
}

func (r *scriptedReader) AsyncRead(p []byte, cb sonic.AsyncCallback) {
	n, err := r.Read(p)
	cb(err, n)
}
func (r *scriptedReader) AsyncReadAll(p []byte, cb sonic.AsyncCallback) { r.AsyncRead(p, cb) }

type scriptedWriter struct {
	step   int // bytes accepted per call (0 = everything)
	failAt int // call index that fails with (0, err); -1 = never
	calls  int
	got    []byte
	asyncN int
}

func (w *scriptedWriter) Write(p []byte) (int, error) {
	if w.calls == w.failAt {
		w.calls++
		return 0, errScripted
	}
	w.calls++
	k := len(p)
	if w.step > 0 && w.step < k {
		k = w.step
	}
	w.got = append(w.got, p[:k]...)
	return k, nil
}

// AsyncWriteAll either takes everything or fails having taken nothing.
func (w *scriptedWriter) AsyncWriteAll(p []byte, cb sonic.AsyncCallback) {
	if w.failAt == 0 {
		cb(errScripted, 0)
		return
	}
	w.got = append(w.got, p...)
	cb(nil, len(p))
}
func (w *scriptedWriter) AsyncWrite(p []byte, cb sonic.AsyncCallback) { w.AsyncWriteAll(p, cb) }

func clampCount(n, l int) int {
	if n <= 0 {
		return 0
	}
	if n > l {
		return l
	}
	return n
}

func intDomain(l int) []int {
	d := []int{math.MinInt, -1, 0, 1, 2, 3, l, l + 1, math.MaxInt}
	seen := map[int]bool{}
	var out []int
	for _, x := range d {
		if !seen[x] {
			seen[x] = true
			out = append(out, x)
		}
	}
	return out
}

func argName(x int) string {
	switch x {
	case math.MinInt:
		return "MinInt"
	case math.MaxInt:
		return "MaxInt"
	}
	return fmt.Sprint(x)
}

// relative arguments: "len" and "len+1" are resolved against the state when the op runs, so the static
// alphabet uses symbolic names.
type relArg struct {
	name string
	val  func(l int) int
}

var relArgs = []relArg{
	{"MinInt", func(int) int { return math.MinInt }},
	{"-1", func(int) int { return -1 }},
	{"0", func(int) int { return 0 }},
	{"1", func(int) int { return 1 }},
	{"2", func(int) int { return 2 }},
	{"3", func(int) int { return 3 }},
	{"len", func(l int) int { return l }},
	{"len+1", func(l int) int { return l + 1 }},
	{"MaxInt", func(int) int { return math.MaxInt }},
}

func bbOps() []bbOp {
	var ops []bbOp
	add := func(label string, do func(s *bbState) (bool, *engine.Violation)) {
		ops = append(ops, bbOp{label, do})
	}
	// writes
	for k := 1; k <= 3; k++ {
		k := k
		add(fmt.Sprintf("Write(%d bytes)", k), func(s *bbState) (bool, *engine.Violation) {
			if s.total()+k > s.lenMax {
				return false, nil
			}
			t := s.fresh(k)
			n, err := s.b.Write(t)
			if n != k || err != nil {
				return true, bbViol("bytebuffer.Write/result", "Write(%d bytes) = (%d,%v)", k, n, err)
			}
			s.write = append(s.write, t...)
			return true, nil
		})
	}
	add("WriteByte", func(s *bbState) (bool, *engine.Violation) {
		if s.total()+1 > s.lenMax {
			return false, nil
		}
		t := s.fresh(1)
		if err := s.b.WriteByte(t[0]); err != nil {
			return true, bbViol("bytebuffer.WriteByte/result", "WriteByte = %v", err)
		}
		s.write = append(s.write, t...)
		return true, nil
	})
	add("WriteString(2 bytes)", func(s *bbState) (bool, *engine.Violation) {
		if s.total()+2 > s.lenMax {
			return false, nil
		}
		t := s.fresh(2)
		n, err := s.b.WriteString(string(t))
		if n != 2 || err != nil {
			return true, bbViol("bytebuffer.WriteString/result", "WriteString = (%d,%v)", n, err)
		}
		s.write = append(s.write, t...)
		return true, nil
	})
	for _, ra := range relArgs {
		ra := ra
		add("Commit("+ra.name+")", func(s *bbState) (bool, *engine.Violation) {
			n := ra.val(len(s.write))
			s.b.Commit(n)
			k := clampCount(n, len(s.write))
			s.read = append(s.read, s.write[:k]...)
			s.write = s.write[k:]
			return true, nil
		})
		add("Consume("+ra.name+")", func(s *bbState) (bool, *engine.Violation) {
			n := ra.val(len(s.read))
			s.b.Consume(n)
			k := clampCount(n, len(s.read))
			s.read = s.read[k:]
			return true, nil
		})
		add("Save("+ra.name+")", func(s *bbState) (bool, *engine.Violation) {
			n := ra.val(len(s.read))
			slot := s.b.Save(n)
			k := clampCount(n, len(s.read))
			if slot.Length != k {
				return true, bbViol("bytebuffer.Save/length", "Save(%s) returned %+v, %d bytes were readable", argName(n), slot, len(s.read))
			}
			if k > 0 {
				if slot.Index != len(s.saved) {
					return true, bbViol("bytebuffer.Save/index", "Save(%s) returned %+v, save area had %d bytes", argName(n), slot, len(s.saved))
				}
				s.saved = append(s.saved, s.read[:k]...)
				s.read = s.read[k:]
				s.slots = append(s.slots, slot)
			}
			return true, nil
		})
		add("ShrinkBy("+ra.name+")", func(s *bbState) (bool, *engine.Violation) {
			n := ra.val(len(s.write))
			got := s.b.ShrinkBy(n)
			k := clampCount(n, len(s.write))
			if got != k {
				return true, bbViol("bytebuffer.ShrinkBy/result", "ShrinkBy(%s) = %d with %d written bytes", argName(n), got, len(s.write))
			}
			s.write = s.write[:len(s.write)-k]
			return true, nil
		})
		add("ShrinkTo("+ra.name+")", func(s *bbState) (bool, *engine.Violation) {
			n := ra.val(len(s.write))
			got := s.b.ShrinkTo(n)
			// ShrinkTo(n) leaves min(n, WriteLen) bytes; a negative n may be clamped to 0 or ignored.
			keep := clampCount(n, len(s.write))
			if n < 0 && got == 0 {
				keep = len(s.write)
			}
			if got != len(s.write)-keep {
				return true, bbViol("bytebuffer.ShrinkTo/result", "ShrinkTo(%s) = %d with %d written bytes", argName(n), got, len(s.write))
			}
			s.write = s.write[:keep]
			return true, nil
		})
		add("PrepareRead("+ra.name+")", func(s *bbState) (bool, *engine.Violation) {
			n := ra.val(len(s.read) + len(s.write))
			err := s.b.PrepareRead(n)
			need := n - len(s.read)
			if n <= len(s.read) {
				// nothing to do; the error value for absurd negative arguments is not constrained
				if n >= 0 && err != nil {
					return true, bbViol("bytebuffer.PrepareRead/spurious-error", "PrepareRead(%d) = %v with %d readable", n, err, len(s.read))
				}
				return true, nil
			}
			if need <= len(s.write) {
				if err != nil {
					return true, bbViol("bytebuffer.PrepareRead/error-although-available", "PrepareRead(%d) = %v with %d readable + %d written", n, err, len(s.read), len(s.write))
				}
				s.read = append(s.read, s.write[:need]...)
				s.write = s.write[need:]
				return true, nil
			}
			if err == nil {
				return true, bbViol("bytebuffer.PrepareRead/no-error", "PrepareRead(%s) = nil with only %d readable + %d written", argName(n), len(s.read), len(s.write))
			}
			return true, nil
		})
		add("ClaimFixed("+ra.name+"~reserved)", func(s *bbState) (bool, *engine.Violation) {
			res := s.b.Reserved()
			n := ra.val(res)
			if n >= 0 && n <= res && s.total()+n > s.lenMax {
				return false, nil
			}
			c := s.b.ClaimFixed(n)
			if n >= 0 && n <= res {
				if len(c) != n {
					return true, bbViol("bytebuffer.ClaimFixed/length", "ClaimFixed(%d) returned %d bytes with %d reserved", n, len(c), res)
				}
				t := s.fresh(n)
				copy(c, t)
				s.write = append(s.write, t...)
			} else if len(c) != 0 {
				return true, bbViol("bytebuffer.ClaimFixed/out-of-range-granted", "ClaimFixed(%s) returned %d bytes with %d reserved", argName(n), len(c), res)
			}
			return true, nil
		})
		add("Claim(fn returns "+ra.name+"~len(b))", func(s *bbState) (bool, *engine.Violation) {
			res := s.b.Reserved()
			r := ra.val(res)
			if r >= 0 && r <= res && s.total()+r > s.lenMax {
				return false, nil
			}
			if r > res && s.total()+res > s.lenMax {
				// an over-claim may legitimately be clamped to len(b): keep that within the bound too
				return false, nil
			}
			var t []byte
			var gotLen int
			s.b.Claim(func(b []byte) int {
				gotLen = len(b)
				k := r
				if k < 0 {
					k = 0
				}
				if k > len(b) {
					k = len(b)
				}
				t = s.fresh(k)
				copy(b, t)
				return r
			})
			if gotLen != res {
				return true, bbViol("bytebuffer.Claim/slice-length", "Claim handed out %d bytes, Reserved() was %d", gotLen, res)
			}
			switch {
			case r >= 0 && r <= res:
				s.write = append(s.write, t...)
			case r > res:
				// clamped (all of b) or ignored (nothing): both are accepted
				if s.b.WriteLen() == len(s.write)+res {
					s.write = append(s.write, t...)
				}
			}
			return true, nil
		})
	}
	for _, n := range []int{math.MinInt, -1, 0, 1, 2, 9, 20, 600} {
		n := n
		add("Reserve("+argName(n)+")", func(s *bbState) (bool, *engine.Violation) {
			if s.b.Cap() > 2048 && n > s.b.Reserved() {
				return false, nil
			}
			s.b.Reserve(n)
			if n > 0 && s.b.Reserved() < n {
				return true, bbViol("bytebuffer.Reserve/too-little", "Reserve(%d) left Reserved()=%d", n, s.b.Reserved())
			}
			return true, nil
		})
	}
	// discard each live slot by position (first, second, ..., and the last one)
	for i := 0; i < 4; i++ {
		i := i
		add(fmt.Sprintf("Discard(slot#%d)", i), func(s *bbState) (bool, *engine.Violation) {
			if i >= len(s.slots) {
				return false, nil
			}
			sl := s.slots[i]
			got := s.b.Discard(sl)
			if got != sl.Length {
				return true, bbViol("bytebuffer.Discard/result", "Discard(%+v) = %d", sl, got)
			}
			s.saved = append(s.saved[:sl.Index:sl.Index], s.saved[sl.Index+sl.Length:]...)
			s.slots = append(s.slots[:i:i], s.slots[i+1:]...)
			for j := range s.slots {
				if s.slots[j].Index > sl.Index {
					s.slots[j] = sonic.OffsetSlot(sl.Length, s.slots[j])
				}
			}
			return true, nil
		})
	}
	add("Discard(Slot{})", func(s *bbState) (bool, *engine.Violation) {
		if got := s.b.Discard(sonic.Slot{}); got != 0 {
			return true, bbViol("bytebuffer.Discard/zero-slot", "Discard(Slot{}) = %d", got)
		}
		return true, nil
	})
	add("Discard(Slot{1,-1})", func(s *bbState) (bool, *engine.Violation) {
		if got := s.b.Discard(sonic.Slot{Index: 1, Length: -1}); got != 0 {
			return true, bbViol("bytebuffer.Discard/negative-slot", "Discard(Slot{1,-1}) = %d", got)
		}
		return true, nil
	})
	add("DiscardAll", func(s *bbState) (bool, *engine.Violation) {
		s.b.DiscardAll()
		s.saved, s.slots = nil, nil
		return true, nil
	})
	add("Reset", func(s *bbState) (bool, *engine.Violation) {
		s.b.Reset()
		s.saved, s.read, s.write, s.slots = nil, nil, nil, nil
		return true, nil
	})
	for _, k := range []int{0, 1, 2, 3, 40} {
		k := k
		add(fmt.Sprintf("Read(dst[%d])", k), func(s *bbState) (bool, *engine.Violation) {
			dst := make([]byte, k)
			n, _ := s.b.Read(dst)
			want := clampCount(k, len(s.read))
			if n != want || string(dst[:n]) != string(s.read[:want]) {
				return true, bbViol("bytebuffer.Read/bytes", "Read(dst[%d]) returned n=%d %v, readable were %v", k, n, dst[:clampCount(n, k)], s.read)
			}
			s.read = s.read[want:]
			return true, nil
		})
	}
	add("ReadByte", func(s *bbState) (bool, *engine.Violation) {
		c, err := s.b.ReadByte()
		if len(s.read) == 0 {
			if err == nil {
				return true, bbViol("bytebuffer.ReadByte/nothing-readable/byte-invented", "ReadByte() = (%d, nil) although the read area is empty (saved %d, written %d)", c, len(s.saved), len(s.write))
			}
			return true, nil
		}
		if err != nil || c != s.read[0] {
			return true, bbViol("bytebuffer.ReadByte/result", "ReadByte() = (%d,%v), next readable byte is %d", c, err, s.read[0])
		}
		s.read = s.read[1:]
		return true, nil
	})
	add("UnreadByte", func(s *bbState) (bool, *engine.Violation) {
		err := s.b.UnreadByte()
		if len(s.write) > 0 {
			if err != nil {
				return true, bbViol("bytebuffer.UnreadByte/result", "UnreadByte() = %v with %d written bytes", err, len(s.write))
			}
			s.write = s.write[:len(s.write)-1]
		} else if err == nil {
			return true, bbViol("bytebuffer.UnreadByte/result", "UnreadByte() = nil with nothing written")
		}
		return true, nil
	})
	for _, k := range []int{0, 1, 2} {
		for _, async := range []bool{false, true} {
			k, async := k, async
			name := "ReadFrom"
			if async {
				name = "AsyncReadFrom"
			}
			add(fmt.Sprintf("%s(reader gives %d)", name, k), func(s *bbState) (bool, *engine.Violation) {
				if s.total()+k > s.lenMax {
					return false, nil
				}
				r := &scriptedReader{s: s, k: k}
				var n int64
				var err error
				calls := 1
				if async {
					calls = 0
					s.b.AsyncReadFrom(r, func(e error, m int) { calls++; n, err = int64(m), e })
				} else {
					n, err = s.b.ReadFrom(r)
				}
				if calls != 1 || err != nil || int(n) != len(r.put) {
					return true, bbViol("bytebuffer."+name+"/result", "%s = (%d,%v) callbacks=%d, reader delivered %d", name, n, err, calls, len(r.put))
				}
				s.write = append(s.write, r.put...)
				return true, nil
			})
		}
	}
	for _, async := range []bool{false, true} {
		async := async
		name := "ReadFrom"
		if async {
			name = "AsyncReadFrom"
		}
		add(name+"(reader fails)", func(s *bbState) (bool, *engine.Violation) {
			r := &scriptedReader{s: s, err: errScripted}
			var err error
			if async {
				s.b.AsyncReadFrom(r, func(e error, m int) { err = e })
			} else {
				_, err = s.b.ReadFrom(r)
			}
			if err == nil {
				return true, bbViol("bytebuffer."+name+"/error-swallowed", "%s returned nil although the reader failed", name)
			}
			return true, nil
		})
	}
	type wv struct {
		name         string
		step, failAt int
	}
	for _, v := range []wv{{"all", 0, -1}, {"1 byte per call", 1, -1}, {"fails at once", 0, 0}, {"1 byte then fails", 1, 1}} {
		v := v
		add("WriteTo(writer "+v.name+")", func(s *bbState) (bool, *engine.Violation) {
			w := &scriptedWriter{step: v.step, failAt: v.failAt}
			n, err := s.b.WriteTo(w)
			if string(w.got) != string(s.read[:len(w.got)]) {
				return true, bbViol("bytebuffer.WriteTo/bytes", "writer received %v, readable were %v", w.got, s.read)
			}
			if int(n) != len(w.got) {
				return true, bbViol("bytebuffer.WriteTo/count", "WriteTo = %d, writer accepted %d", n, len(w.got))
			}
			if err == nil && len(w.got) != len(s.read) {
				return true, bbViol("bytebuffer.WriteTo/short-success", "WriteTo = (%d,nil) with %d readable", n, len(s.read))
			}
			s.read = s.read[len(w.got):]
			return true, nil
		})
	}
	for _, fail := range []bool{false, true} {
		fail := fail
		nm := "all"
		if fail {
			nm = "fails"
		}
		add("AsyncWriteTo(writer "+nm+")", func(s *bbState) (bool, *engine.Violation) {
			w := &scriptedWriter{failAt: -1}
			if fail {
				w.failAt = 0
			}
			calls := 0
			var n int
			var err error
			s.b.AsyncWriteTo(w, func(e error, m int) { calls++; n, err = m, e })
			if calls != 1 {
				return true, bbViol("bytebuffer.AsyncWriteTo/callbacks", "callback ran %d times", calls)
			}
			if fail {
				if err == nil {
					return true, bbViol("bytebuffer.AsyncWriteTo/error-swallowed", "nil error although the writer failed")
				}
				return true, nil
			}
			if err != nil || n != len(s.read) || string(w.got) != string(s.read) {
				return true, bbViol("bytebuffer.AsyncWriteTo/result", "AsyncWriteTo = (%d,%v), writer got %v, readable %v", n, err, w.got, s.read)
			}
			s.read = nil
			return true, nil
		})
	}
	return ops
}

func bbSpec(cfg string, lenMax int) *engine.BFS[*bbState] {
	ops := bbOps()
	labels := make([]string, len(ops))
	for i, o := range ops {
		labels[i] = o.label
	}
	return &engine.BFS[*bbState]{
		Name: fmt.Sprintf("%s,lenMax=%d", cfg, lenMax),
		New: func() *bbState {
			s := &bbState{lenMax: lenMax}
			if cfg == "zero-value" {
				s.b = &sonic.ByteBuffer{}
			} else {
				s.b = sonic.NewByteBuffer()
			}
			return s
		},
		Ops:   labels,
		Apply: func(s *bbState, op int) (bool, *engine.Violation) { return ops[op].do(s) },
		Key:   func(s *bbState) string { return s.key() },
		Inv:   func(s *bbState) *engine.Violation { return s.inv() },
		PanicSig: func(op int, r any) string {
			l := labels[op]
			return "bytebuffer." + l + "/panic"
		},
	}
}

var _ io.Reader = (*scriptedReader)(nil)

func bbConfigs(tier string) [][2]any {
	if tier == "thorough" {
		return [][2]any{{"NewByteBuffer", 9}, {"zero-value", 18}}
	}
	return [][2]any{{"NewByteBuffer", 6}, {"zero-value", 10}}
}

func C09(tier string) *engine.Report {
	rep := engine.NewReport("C09", tier, "model_checking")
	var tot engine.BFSTotals
	deadline := engine.Cap(tier) // one wall-clock budget for the whole check
	for _, c := range bbConfigs(tier) {
		sp := bbSpec(c[0].(string), c[1].(int))
		sp.Until = deadline
		r := sp.Run()
		if !r.Fixpoint {
			r.Capped = true // this search is meant to reach a fixpoint; anything less is reported as not exhaustive
		}
		tot.Add(sp.Name, r, rep)
	}
	tot.Fill(rep, "reachable states of a real sonic.ByteBuffer (NewByteBuffer and zero value) under the whole public API with integer domains {MinInt,-1,0,1,2,3,len,len+1,MaxInt}, "+
		"BFS to fixpoint with saved+readable+written <= lenMax; state = (slot lengths, readable, written, min(Reserved,12)); every transition runs the real method and the three-region model in lock-step "+
		"and the invariant compares all three regions, every live slot and the length sum")
	return rep
}

func C09Replay(v engine.Violation, log func(string)) *engine.Violation {
	var cfg string
	var lm int
	parts := strings.Split(v.Config, ",lenMax=")
	cfg = parts[0]
	fmt.Sscanf(parts[1], "%d", &lm)
	return bbSpec(cfg, lm).Replay(v.Path, log)
}
