package checks

// C13 (b2) close/in-flight: "Close releases exactly the descriptors the object owns" for an object that has
// operations waiting in the poller, also when taking them out of the poller fails. One object of every kind x what
// is in flight {nothing, a read, a write, both} x what happened to the poller before {nothing, the IO was closed first
// (every epoll_ctl then fails)} x Close once or twice. The census after the first Close must have lost exactly the
// object's descriptors, whatever Close returned; the second Close must not touch the table.

import (
	"fmt"

	"golang.org/x/sys/unix"
	"net"
	"net/netip"
	"os"
	"syscall"
	"time"

	"github.com/talostrading/sonic"
	"github.com/talostrading/sonic/sonicopts"
	"verifmc/engine"
	"verifmc/kern"
)

var c13InflightKinds = []string{"conn", "accepted", "fifo-r", "fifo-w", "packet", "listener", "peer", "adapter", "timer"}

func c13CloseInFlight(x *engine.X) {
	kind := c13InflightKinds[x.Pick(len(c13InflightKinds), "object kind")]
	ioc, err := sonic.NewIO()
	if err != nil {
		engine.HarnessError("NewIO: %v", err)
	}
	iocClosed := false
	x.Defer(func() {
		if !iocClosed {
			ioc.Close()
		}
	})
	var extra []int // harness-side descriptors (peers), closed at teardown
	x.Defer(func() {
		for _, fd := range extra {
			syscall.Close(fd)
		}
	})
	var keep []any
	// A process started with descriptor 0 closed (a daemon, `cmd <&-`) hands 0 to the next object it creates: a
	// descriptor number like any other. For the kinds the harness creates without descriptors of its own in between.
	if kind == "packet" || kind == "listener" || kind == "peer" || kind == "timer" {
		if x.Pick(2, "descriptor 0 is free when the object is created") == 1 {
			save, err := unix.FcntlInt(0, unix.F_DUPFD_CLOEXEC, 100)
			if err != nil {
				engine.HarnessError("dup of descriptor 0: %v", err)
			}
			syscall.Close(0)
			x.Defer(func() {
				unix.Dup3(save, 0, 0)
				syscall.Close(save)
			})
			x.Note("descriptor 0 freed before the object is created")
		}
	}
	before := kern.Census(c13Dir)
	var closeFn func() error
	var read, write func()
	deferred := func(f func()) {
		saved := ioc.Dispatched
		ioc.Dispatched = sonic.MaxCallbackDispatch
		f()
		ioc.Dispatched = saved
	}
	cbs := 0
	cb := func(error, int) { cbs++ }
	switch kind {
	case "conn", "accepted":
		var c sonic.Conn
		if kind == "conn" {
			lfd, addr, port, _ := kern.TCPListener()
			c, err = sonic.Dial(ioc, "tcp", kern.AddrString(addr, port))
			if err != nil {
				x.Inconclusive("dial: " + err.Error())
			}
			p, _ := kern.AcceptRaw(lfd, settleGuard)
			syscall.Close(lfd)
			extra = append(extra, p)
		} else {
			addr := kern.NextLoopback()
			l, err := sonic.Listen(ioc, "tcp", kern.AddrString(addr, 0), sonicopts.Nonblocking(true))
			if err != nil {
				engine.HarnessError("Listen: %v", err)
			}
			sa, _ := syscall.Getsockname(l.RawFd())
			p, err := kern.ConnectRaw(addr, sa.(*syscall.SockaddrInet4).Port)
			if err != nil {
				x.Inconclusive("connect: " + err.Error())
			}
			extra = append(extra, p)
			kern.AwaitReadable(l.RawFd(), settleGuard)
			c, err = l.Accept()
			if err != nil {
				engine.HarnessError("Accept: %v", err)
			}
			l.Close()
		}
		closeFn = closeConnNoWait(c)
		read = func() { c.AsyncRead(make([]byte, 8), cb) }
		write = func() { deferred(func() { c.AsyncWrite([]byte("abc"), cb) }) }
	case "fifo-r", "fifo-w":
		r, w, _ := kern.Pipe(4096)
		if kind == "fifo-r" {
			f, err := sonic.Open(ioc, fmt.Sprintf("/proc/self/fd/%d", r), syscall.O_RDONLY|syscall.O_NONBLOCK, 0)
			if err != nil {
				engine.HarnessError("Open: %v", err)
			}
			syscall.Close(r)
			extra = append(extra, w)
			closeFn = f.Close
			read = func() { f.AsyncRead(make([]byte, 8), cb) }
		} else {
			f, err := sonic.Open(ioc, fmt.Sprintf("/proc/self/fd/%d", w), syscall.O_WRONLY|syscall.O_NONBLOCK, 0)
			if err != nil {
				engine.HarnessError("Open: %v", err)
			}
			syscall.Close(w)
			extra = append(extra, r)
			closeFn = f.Close
			write = func() { deferred(func() { f.AsyncWrite([]byte("abc"), cb) }) }
		}
	case "packet":
		pc, err := sonic.NewPacketConn(ioc, "udp", "127.0.0.1:0")
		if err != nil {
			engine.HarnessError("NewPacketConn: %v", err)
		}
		closeFn = pc.Close
		read = func() { pc.AsyncReadFrom(make([]byte, 8), func(error, int, net.Addr) { cbs++ }) }
		write = func() {
			deferred(func() {
				pc.AsyncWriteTo([]byte("ab"), &net.UDPAddr{IP: net.IPv4(127, 0, 0, 1), Port: 9}, func(error) { cbs++ })
			})
		}
	case "listener":
		l, err := sonic.Listen(ioc, "tcp", kern.AddrString(kern.NextLoopback(), 0), sonicopts.Nonblocking(true))
		if err != nil {
			engine.HarnessError("Listen: %v", err)
		}
		closeFn = l.Close
		read = func() { l.AsyncAccept(func(error, sonic.Conn) { cbs++ }) }
	case "peer":
		p, err := newOwnPeer(ioc, "127.0.0.1")
		if err != nil {
			engine.HarnessError("NewUDPPeer: %v", err)
		}
		closeFn = p.Close
		rb := make([]byte, 16)
		read = func() { p.AsyncRead(rb, func(error, int, netip.AddrPort) { cbs++ }) }
	case "adapter":
		a, b, _ := kern.SocketPair()
		extra = append(extra, b)
		f := os.NewFile(uintptr(a), "sp")
		c, err := net.FileConn(f)
		f.Close()
		if err != nil {
			engine.HarnessError("FileConn: %v", err)
		}
		var ad *sonic.AsyncAdapter
		sonic.NewAsyncAdapter(ioc, c.(syscall.Conn), c, func(err error, x *sonic.AsyncAdapter) { ad = x })
		keep = append(keep, c)
		// the adapter does not own the descriptor: its Close plus the owner's Close release it
		closeFn = func() error { err := ad.Close(); c.Close(); return err }
		read = func() { ad.AsyncRead(make([]byte, 8), cb) }
		write = func() { deferred(func() { ad.AsyncWrite([]byte("abc"), cb) }) }
	case "timer":
		t, err := sonic.NewTimer(ioc)
		if err != nil {
			engine.HarnessError("NewTimer: %v", err)
		}
		closeFn = t.Close
		read = func() {
			if err := t.ScheduleOnce(time.Hour, func() { cbs++ }); err != nil {
				engine.HarnessError("ScheduleOnce: %v", err)
			}
		}
	}
	_ = keep
	mid := kern.Census(c13Dir)
	own, _, _ := before.Diff(mid)
	var mine []int
	for _, fd := range own {
		isExtra := false
		for _, e := range extra {
			if e == fd {
				isExtra = true
			}
		}
		if !isExtra {
			mine = append(mine, fd)
		}
	}
	var modes []string
	modes = append(modes, "nothing")
	if read != nil {
		modes = append(modes, "read")
	}
	if write != nil {
		modes = append(modes, "write")
	}
	if read != nil && write != nil {
		modes = append(modes, "read+write")
	}
	mode := modes[x.Pick(len(modes), "in flight")]
	switch mode {
	case "read":
		read()
	case "write":
		write()
	case "read+write":
		read()
		write()
	}
	if cbs != 0 {
		x.Inconclusive(fmt.Sprintf("%s: an operation that was to stay in flight (%s) completed at once", kind, mode))
	}
	pollerGone := x.Pick(2, "before Close: nothing | the IO is closed first") == 1
	if pollerGone {
		ioc.Close()
		iocClosed = true
	}
	x.Note("%s with %s in flight, IO closed first: %v; owns %v", kind, mode, pollerGone, mine)
	x.Nontrivial()
	pre := kern.Census(c13Dir)
	var cerr error
	x.Guard("fd/"+kind+".Close/panic", func() { cerr = closeFn() })
	post := kern.Census(c13Dir)
	_, rem, _ := pre.Diff(post)
	if fmt.Sprint(rem) != fmt.Sprint(mine) {
		x.Fail("fd/"+kind+".Close/in-flight/not-exactly-own", "Close of a %s with %s in flight (IO closed first: %v) returned %v and closed descriptors %v; the object owns %v", kind, mode, pollerGone, cerr, rem, mine)
	}
	if x.Pick(2, "Close again") == 1 {
		// the freed numbers are taken by unrelated descriptors first: a second Close must not touch them
		var fill []int
		for range mine {
			fd, err := syscall.Open("/dev/null", syscall.O_RDONLY|syscall.O_CLOEXEC, 0)
			if err == nil {
				fill = append(fill, fd)
			}
		}
		pre2 := kern.Census(c13Dir)
		x.Guard("fd/"+kind+".Close/panic", func() { closeFn() })
		post2 := kern.Census(c13Dir)
		a, r, c := pre2.Diff(post2)
		for _, fd := range fill {
			syscall.Close(fd)
		}
		if len(a)+len(r)+len(c) != 0 {
			x.Fail("fd/"+kind+".Close/in-flight/second-close-touches-table", "a second Close of a %s (%s was in flight, IO closed first: %v) changed the descriptor table: added %v removed %v changed %v", kind, mode, pollerGone, a, r, c)
		}
	}
	x.Outcome(fmt.Sprintf("close-in-flight/%s/%s/%v", kind, mode, pollerGone))
}
