#!/usr/bin/env python3
"""Generates MANIFEST.json from the table below (kept in one place so it stays valid)."""
import json, subprocess
ALL=[f"C{i:02d}" for i in range(1,21)]
CHECKS={
 "C12": dict(level="exploration", engine="E1-dfs",
   technique="exhaustive enumeration of datagram sizes / buffer relations / bursts on real sockets; membership call sequences explored differentially against a reference socket driven by raw setsockopt, with a fence datagram before every negative verdict; setter sequences against getsockopt",
   text="Every datagram size 1..1472 plus 1473/4096/9000/65507 to a packet conn and to a multicast peer, read (buffer shorter/exact/longer, bursts of <=3 from <=2 senders, early/forced-deferred start) and write (received by a raw socket): one completion per datagram with exact bytes, length and sender address. All sequences of up to 3/4 membership calls (Join, Leave, JoinSource, LeaveSource, BlockSource, UnblockSource over 2 groups x 2 sources): same success/failure as the raw request and same delivery as the reference socket for a probe per group after every call. All sequences of up to 3 setters x 5 bind forms: getters equal the kernel state. SetAsyncReadBuffer chains land in the latest buffer.",
   note="Boundaries run on loopback; membership needs a multicast-capable interface (if none exists those executions are inconclusive and the run is reported non-exhaustive); one real source address; the Loop() getter of a new peer is a known finding pinned by the repository's own test.",
   design="4/C12"),
 "C13": dict(level="fault_enumeration", engine="E1-dfs",
   technique="enumeration of failure points (k-th descriptor allocation via a filled descriptor table, refused/unreachable/conflicting/non-local endpoints, failing options), of close/create sequences, and of GC placements, each judged by a descriptor census (fstat identity) or weak-pointer reachability",
   text="(a) every constructor {NewIO, NewTimer, Dial TCP/UDP, DialTimeout, Listen, Accept, NewPacketConn, NewUDPPeer, Open, NewMirroredBuffer} x descriptor exhaustion at allocation k=1..6 and every applicable endpoint fault: census before == after a failed call, Close after a successful one restores it; (b) all sequences of up to 4 actions {close (repeatable), owner-close, create} over 8 object kinds: every object the scenario has not closed keeps the same kernel object under its descriptor, a first Close closes exactly the object's own descriptors; (c) 6 kinds x 5 in-flight shapes x GC at each of two points: the completion callback of every in-flight operation stays reachable and the completion is delivered. Handshake failure points are explored in C18's driver with the same census.",
   note="One census domain per worker process, automatic GC off inside an execution; fd exhaustion uses RLIMIT_NOFILE=200 and /dev/null fillers; the AsyncAdapter's net.Conn is kept by the harness in the GC family (it has a finalizer of its own).",
   design="4/C13"),
 "C14": dict(level="exploration", engine="E1-dfs",
   technique="exhaustive enumeration of operation cycles x chain lengths on real pre-loaded descriptors with a harness nesting counter",
   text="All 1463 cycles of length 1..3 over {conn read/write, FIFO read/write, regular-file read/write, accept, packet read/write, multicast-peer read/write} x chain lengths {31,32,33,34,70}: every callback issues the next step; nesting <= MaxCallbackDispatch+1, IO.Dispatched back to 0 after every unwinding, the step issued at the limit completes after polling with the inline result, every step exactly once.",
   note="Chains longer than 70 and cycles longer than 3 are not driven; the two regular-file findings are listed in KNOWN_FINDINGS.txt with their own signatures, so a nesting excess on any other kind is still reported.",
   design="4/C14"),
 "C02": dict(level="exploration", engine="E1-dfs",
   technique="exhaustive enumeration of stream compositions x buffer sizes x poll placements over real descriptors with raw peers, and of every (n, err) answer of a scripted io.ReadWriter under the AsyncAdapter; position-dependent byte generator as oracle",
   text="Reads: every composition of an N-byte stream (N<=5 quick / 8 thorough) into buffers {1,2,3,5,8} with AsyncRead and AsyncReadAll re-issued from the callback, over Dial conn, accepted conn, FIFO file and AsyncAdapter; poll placement, late or forced-deferred start and a concurrent write are deviations (<=2/3). Writes: FIFO of 1-2 pages x 7 sizes x drain patterns (deterministic partial writes), TCP with minimal send buffer. Adapter with scripted ReadWriter: every sequence of {all, 1 byte, error, 1 byte+error} answers. Bytes, counts, *All contract, exactly-once and nothing-lost are checked on every execution.",
   note="TCP split sizes are the kernel's (observed, not enumerated); each chunk is awaited on the receiving descriptor before the next step; payload values come from a fixed generator.",
   design="4/C02"),
 "C04": dict(level="exploration", engine="E1-dfs",
   technique="deviation-bounded stateless DFS over timer action sequences on the real poller, expiry awaited on the timerfd (kernel-decided), reference timer model per schedule generation",
   text="Every action sequence up to depth 4/5 over two (optionally three, to reuse a closed timer's descriptor number) timers and a FIFO reader on one IO: ScheduleOnce/ScheduleRepeating with delays {<=0, 30us, 10s}, Cancel, Close, new timer, FIFO read, peer data, poll; handler behaviours from timer and I/O callbacks (cancel, close, cancel+re-arm, schedule on itself or the other timer) are deviations, all combinations up to 1/2. Each callback must belong to the live schedule generation, enter no earlier than its delay, and run within two polls once the kernel reports expiry; refused schedules change nothing; Scheduled() equals the model.",
   note="Short timers are always awaited to expiry before the next action and 10 s timers never expire, so the set of expired timers at each poll is owned by the harness; no upper bound on lateness is asserted; new schedules started inside a repeating timer's own callback are not judged.",
   design="4/C04"),
 "C01": dict(level="exploration", engine="E1-dfs",
   technique="deviation-bounded stateless DFS over action sequences on the real poller with two real objects and raw-syscall peers; per-operation callback ledger and poll(2) readiness oracle",
   text="Every action sequence up to depth 4 (quick) / 5 (thorough) over all 28 unordered pairs of {Dial conn, accepted conn, FIFO read end, FIFO write end, packet conn, listener, AsyncAdapter} on one IO: start read/write/accept/readfrom/writeto (plain, forced-deferred, *All), peer data / half-close / close / hang-up / RST / connect, cancel, close, poll; handler behaviours (re-issue, cancel or close self/other, re-arm on cancellation) as deviations, all combinations up to 1/2. Callback count <=1 at all times, Cancel completes each in-flight op once with a cancellation error, nothing after Close, delivered bytes are the peer's, and after (in-flight+3) polls nothing that poll(2) reports non-blocking may still be in flight.",
   note="The order of events inside one epoll batch is the kernel's (both start orders are enumerated); readiness per poll(2) is trusted; write-would-block is reached through the forced-deferred path and FIFO hang-ups rather than by filling socket buffers.",
   design="4/C01, Appendix D"),
 "C03": dict(level="exploration", engine="E1-dfs",
   technique="deviation-bounded stateless DFS over the same driver plus timers, posts and failing registrations, with a shadow ledger; signal-interruption cases enumerated with tgkill on a thread observed asleep in epoll_wait",
   text="Every action sequence up to depth 4/5 over one or two objects plus a timer (1 ms awaited to expiry by the kernel, 10 s never firing), posted handlers, a regular file (EPERM) and descriptors closed underneath (EBADF): Pending() == ledger after every action, every PollOne judged against handlers run and poll(2) on the epoll fd, RunPending called wherever the ledger says it must return (a hang is caught by the worker watchdog). Plus 3 ledger shapes x {RunPending, RunOne, RunOneFor} x 1..2/4 signals delivered while the loop thread sleeps in epoll_wait.",
   note="The ledger is built from the harness's own actions and callback observations only; ErrTimeout from RunOneFor after an interrupted wait is accepted as the documented benign result; handlers start nothing new inside RunPending.",
   design="4/C03, Appendix D"),
 "C08": dict(level="model_checking", engine="E2-bfs",
   technique="explicit-state BFS over peer events and local calls on the real Stream in lock-step with an RFC 6455 control-plane model; outbound wire parsed by an independent parser",
   text="Breadth-first search (depth 5 quick; thorough reaches the fixpoint of the abstract state space at depth 6, about 33k states) over 13 peer events (data, pings, pong, six close variants, RSV1 frame, transport EOF/error) and 10 local calls (4 read APIs, Write, AsyncWrite, Flush, AsyncFlush, Close, AsyncClose) from every reachable state; on every transition the complete outbound frame sequence, the call result class, exactly-once callbacks, Pending() and State() are compared with the model.",
   note="In-memory transport with inline writes (read/write concurrency on a real socket is C17); blocking reads only where the model says they return; terminal State() values are not distinguished from each other; behaviour after a transport error is not constrained.",
   design="4/C08, Appendix C"),
 "C19": dict(level="exploration", engine="E1-dfs",
   technique="exhaustive enumeration of payload sequences x transport behaviours x cut sets through real CodecConn+frame.Codec instances, judged against a reference encoding",
   text="Writer: all sequences of <=3 payloads over sizes {0,1,2,255,256,4097}, blocking and async, partial acceptance and deferred completion; peer bytes must equal the reference encoding and nothing may stay in the write buffer. Reader: the same sequences, every cut set of <=2/3 cuts around every boundary and header byte, whole and byte-by-byte, blocking and async inline/deferred. Hostile: all 4-byte prefixes over a 7-letter alphabet that are over the limit or <=128 KiB, with tails, under every cut set.",
   note="In-memory transport; declared lengths between 128 KiB and the 1 GiB limit are not driven (each would allocate that much); the FIFO-backed would-block variant is covered by C02's file transport.",
   design="4/C19"),
 "C15": dict(level="exploration", engine="E1-dfs",
   technique="deviation-bounded stateless DFS: every single-violation mutation of generated conforming sessions at every frame position, through the real Stream on a scripted transport",
   text="Each of 17 violation kinds (RSV1-3, reserved opcodes 3-7 and B-F, masked frame, fragmented control frame, control payload 126, oversize frame, oversize message by fragments, continuation without start, data frame inside a fragmented message) is injected at every applicable frame position of every base session within the bounds, under all combinations of up to 2/3 deviations (fragmentation, control frames, extra message, trailing close, cuts, byte-by-byte), through the 4 read APIs inline and deferred; reporting, non-delivery, Close(1002) and write refusal are checked.",
   note="In-memory transport; maximum message size lowered to 300 so that oversize cases stay small; what the stream does on reads after the reported error is not judged.",
   design="4/C15"),
 "C16": dict(level="exploration", engine="E1-dfs",
   technique="exhaustive enumeration of write-operation sequences x transport behaviours; the complete outbound byte stream is parsed by an independent RFC 6455 parser",
   text="All sequences of up to 3 operations from a 50-entry menu (Write/AsyncWrite x 8 size classes incl. max and max+1, WriteFrame/AsyncWriteFrame with payload / SetPayload(nil) / no SetPayload, automatic Pong and Close replies, Close/AsyncClose) x 3 transport behaviours (whole+inline, 1 byte per blocking write + deferred async, len-1 + deferred). Frame pooling is made deterministic (single-P worker processes, GC only between executions) so reuse after longer and shorter frames is really exercised.",
   note="Partial writes inside the AsyncAdapter are covered by C02/C17; mask keys are random and only their presence and effect are checked.",
   design="4/C16"),
 "C06": dict(level="exploration", engine="E1-dfs",
   technique="deviation-bounded stateless DFS over generated sessions against the real Stream on a scripted in-memory transport; wire bytes from an independent encoder",
   text="Every session within the bounds (<=2/3 messages, 8 payload length classes up to the configured maximum, every fragmentation into <=3 fragments incl. empty ones, ping/pong in any gap, a cut at any byte position or byte-by-byte delivery; all combinations of up to 2 (quick) / 3 (thorough) such deviations) is pushed through NextFrame, AsyncNextFrame, NextMessage and AsyncNextMessage (inline and deferred completion) and the delivered sequence is compared with the generated one.",
   note="In-memory transport (the real adapter/socket path is covered by C17/C18); payload contents are a position-dependent pattern; the handshake piggy-back variant lives in C18.",
   design="4/C06"),
 "C07": dict(level="exploration", engine="E1-dfs",
   technique="exhaustive enumeration of byte strings / header products x cut sets through the real FrameCodec.Decode, compared with an independent reference parser",
   text="All byte strings of length <=4 over a 9-letter alphabet, the structured product of first byte x mask bit x length encoding (minimal and non-minimal) x declared length (0..2^64-1 incl. >=2^63) x payload presence, and two frames back to back; each fed whole, with every single cut, every pair of cuts (short inputs) and byte by byte; plus encode->decode round trips for all 256 first bytes x mask x 8 length classes.",
   note="The decoder is driven the way CodecConn drives it (append segment, Decode until ErrNeedMore); buffer growth is bounded by 2*(input+max+14)+1024 bytes.",
   design="4/C07"),
 "C09": dict(level="model_checking", engine="E2-bfs",
   technique="explicit-state BFS to fixpoint over the real ByteBuffer in lock-step with a three-region reference model",
   text="All reachable states of a real ByteBuffer (NewByteBuffer and zero value, so every reallocation step is crossed) under the whole public API with integer domains {MinInt,-1,0,1,2,3,len,len+1,MaxInt}, saved+readable+written <= 6/10 (quick) or 9/18 (thorough); after every transition all three regions, every live slot and the length sum are compared with the model and a panic is a violation. Histories of any length within the length bound are covered.",
   note="Byte values abstracted to fresh tags; spare capacity above 12 bytes merged (argument in the check header); Discard is only driven with slots obtained from Save and maintained with OffsetSlot as documented; scripted readers/writers obey the io contracts.",
   design="4/C09"),
 "C11": dict(level="model_checking", engine="E2-bfs",
   technique="explicit-state BFS to fixpoint over the real MirroredBuffer; claims judged by address against a ring model and read back through both mappings",
   text="All reachable (head,tail,used) states of a real MirroredBuffer for 1-6 (quick) / 1-8 (thorough) pages and three sizes that get rounded up, under Claim/Commit/Consume with every half-page amount, size+1, and up to 2/3 odd amounts per history, plus Reset; plus a create/use/Destroy lifecycle per size checked against /proc/self/maps and the backing file.",
   note="Amounts are non-negative; odd amounts are bounded per history (the unbounded space has size^2/2 states); real buffers are pooled and re-initialised with Reset(), whose effect is re-verified on every reuse; constructor failure paths belong to C13.",
   design="4/C11"),
 "C20": dict(level="model_checking", engine="E2-bfs",
   technique="explicit-state BFS to fixpoint over a real ByteBuffer + SlotSequencer / SlotOffsetter with the complete concrete state as key",
   text="All reachable states of ByteBuffer+SlotSequencer(3,6) with sequence numbers 0-4 and lengths 1-3 (thorough: also (4,8) and (2,16)) under push (including duplicates and pushes beyond both capacities), pop of any number, and reset, and of ByteBuffer+bare SlotOffsetter; every pop compares the bytes addressed by the returned slot with the bytes saved under that number, discards, and compares the whole save area. Fixpoint, so draining and never-draining histories of any length are covered.",
   note="A push refused with an error is accepted at any time (capacity includes the offsetter's index space); the caller-side protocol (discard a refused packet, discard each popped slot before the next pop) is the documented one.",
   design="4/C20"),
 "C10": dict(level="model_checking", engine="E2-bfs",
   technique="explicit-state BFS to fixpoint over the real BipBuffer (implementation is the transition function) in lock-step with a FIFO-of-chunks reference model",
   text="Complete reachable state space of a real BipBuffer for sizes 1-6 (quick) / 1-12 (thorough) under Claim/Commit/Consume(0..size+1)/Reset; every state's invariant (Committed, Head contiguity and FIFO order, queued bytes intact) and every transition's result compared with the model. Right level because the state space per size is finite and small, so all histories of any length are covered, not a sample.",
   note="Byte values abstracted to fresh tags (implementation never branches on data); sizes above the bound and negative arguments not covered; integer fields read by reflection.",
   design="4/C10"),
}
NA_REASON="check not built yet in this round (planned in DESIGN.md section 4); no verdict is claimed"
def main():
    m={"version":1,
       "setup_cmd":"./run.sh build",
       "hooks":{"guard":"verif","enable":"go build -tags verif (run.sh); hook files are add-only *_verif.go files guarded by //go:build verif",
                "baseline_off_cmd":"./baseline.sh","source_commits":[],"add_only":True},
       "engines":[
         {"name":"E2-bfs","path":"mc/engine/bfs.go","serves_properties":[k for k,v in CHECKS.items() if v["engine"]=="E2-bfs"],
          "kind_free_text":"explicit-state breadth-first search; successor = replay of the stored shortest path on a fresh real object + one operation; canonical keys; runs to fixpoint or stated depth"},
         {"name":"E1-dfs","path":"mc/engine/dfs.go","serves_properties":[k for k,v in CHECKS.items() if v["engine"]=="E1-dfs"],
          "kind_free_text":"stateless depth-first exploration over choice points (Pick = free, Deviate = costs one deviation, bounded); sharded over goroutines or worker processes; failing cases re-executed 4x before they are believed"},
       ],
       "checks":[], "not_applicable":[],
       "notes":"All checks are bounded exhaustive explorations of the real implementation; see DESIGN.md."}
    try:
        hc=subprocess.run(["git","-C","/repo","log","--format=%H %s"],capture_output=True,text=True).stdout.splitlines()
        m["hooks"]["source_commits"]=[l.split()[0] for l in hc if l.split(" ",1)[1].startswith("verif:")]
    except Exception: pass
    for pid in ALL:
        if pid in CHECKS:
            c=CHECKS[pid]
            m["checks"].append({"property_id":pid,"quick_cmd":f"./run.sh {pid} quick","thorough_cmd":f"./run.sh {pid} thorough",
              "evidence_file":f"/verif/evidence/{pid}.json","replay_cmd_template":f"./run.sh {pid} replay {{path}}",
              "engine":c["engine"],"level_claimed":{"category":c["level"],"text":c["text"],"design_ref":c["design"]},
              "level_note":c["note"],"technique":c["technique"]})
        else:
            m["not_applicable"].append({"property_id":pid,"reason":NA_REASON})
    json.dump(m,open("/verif/MANIFEST.json","w"),indent=1)
    import jsonschema
    jsonschema.validate(m,json.load(open("/root/.vp/MANIFEST.schema.json")))
    print("MANIFEST ok:",len(m["checks"]),"checks")
main()
