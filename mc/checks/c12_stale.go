package checks

// C12, family "stale": a read that is waiting in the poller when its datagram is taken by somebody else first. A
// handler that runs earlier in the same poll batch (a posted handler; the waker is made ready before the datagram is
// sent) reads the datagram with the blocking API; the parked read's own retry then finds nothing and waits again. The
// NEXT datagram must complete that read exactly once: into the buffer designated for it (a SetAsyncReadBuffer issued in
// between moves it, for the multicast peer), with its bytes, its length and its sender. Both orders of the batch are
// accepted (if the socket's event is dispatched first the read simply completes with the first datagram and the
// posted handler's blocking read finds nothing); which one happened is recorded in the outcome.

import (
	"fmt"
	"net"
	"net/netip"
	"syscall"

	"github.com/talostrading/sonic"
	"verifmc/engine"
	"verifmc/kern"
)

func c12Stale(x *engine.X) {
	target := x.Pick(2, "object: multicast peer | packet conn")
	rebuf := target == 0 && x.Pick(2, "SetAsyncReadBuffer between the two datagrams") == 1
	n1 := []int{1, 9, 300}[x.Pick(3, "size of the datagram that is taken away")]
	n2 := []int{1, 12, 300}[x.Pick(3, "size of the datagram that must complete the read")]
	ioc, _ := sonic.NewIO()
	x.Defer(func() { ioc.Close() })
	raw, rawPort, _ := kern.UDPSocket()
	x.Defer(func() { syscall.Close(raw) })
	var fd, port int
	var readAsync func(buf []byte, cb func(err error, n int, from string))
	var readSync func(buf []byte) (int, string, error)
	var setBuf func(b []byte)
	if target == 0 {
		p, err := newOwnPeer(ioc, "127.0.0.1")
		if err != nil {
			engine.HarnessError("NewUDPPeer: %v", err)
		}
		x.Defer(func() { p.Close() })
		fd, port = p.NextLayer().RawFd(), p.LocalAddr().Port
		readAsync = func(buf []byte, cb func(error, int, string)) {
			p.AsyncRead(buf, func(err error, n int, from netip.AddrPort) { cb(err, n, from.String()) })
		}
		readSync = func(buf []byte) (int, string, error) {
			n, from, err := p.Read(buf)
			return n, from.String(), err
		}
		setBuf = p.SetAsyncReadBuffer
	} else {
		pc, err := sonic.NewPacketConn(ioc, "udp", "127.0.0.1:0")
		if err != nil {
			engine.HarnessError("NewPacketConn: %v", err)
		}
		x.Defer(func() { pc.Close() })
		sa, _ := syscall.Getsockname(pc.RawFd())
		fd, port = pc.RawFd(), sa.(*syscall.SockaddrInet4).Port
		readAsync = func(buf []byte, cb func(error, int, string)) {
			pc.AsyncReadFrom(buf, func(err error, n int, from net.Addr) {
				f := ""
				if from != nil {
					f = from.String()
				}
				cb(err, n, f)
			})
		}
		readSync = func(buf []byte) (int, string, error) {
			n, from, err := pc.ReadFrom(buf)
			f := ""
			if from != nil {
				f = from.String()
			}
			return n, f, err
		}
	}
	x.Note("stale readiness: target=%d rebuf=%v sizes %d then %d", target, rebuf, n1, n2)
	x.Nontrivial()
	want := fmt.Sprintf("127.0.0.1:%d", rawPort)
	bufA := make([]byte, 512)
	bufB := make([]byte, 512)
	calls := 0
	var gotErr error
	gotN, gotFrom := 0, ""
	readAsync(bufA, func(err error, n int, from string) { calls++; gotErr, gotN, gotFrom = err, n, from })
	if calls != 0 {
		x.Fail("udp.read/completed-without-datagram", "a read on an empty socket completed at once")
	}
	// the waker becomes ready first, then the socket
	stolen, stolenN := false, 0
	var stealErr error
	sbuf := make([]byte, 512)
	if err := ioc.Post(func() {
		n, _, err := readSync(sbuf)
		stealErr = err
		if err == nil && n > 0 {
			stolen, stolenN = true, n
		}
	}); err != nil {
		engine.HarnessError("Post: %v", err)
	}
	d1, d2 := dgram(41, n1), dgram(42, n2)
	to := &syscall.SockaddrInet4{Addr: [4]byte{127, 0, 0, 1}, Port: port}
	if err := sendtoRetry(raw, d1, to); err != nil {
		x.Inconclusive("sendto: " + err.Error())
	}
	if !kern.AwaitReadReady(fd, settleGuard) {
		x.Inconclusive("datagram did not arrive")
	}
	for i := 0; i < 3; i++ {
		ioc.PollOne()
	}
	order := "socket-first"
	if stolen {
		order = "handler-first"
		if stolenN != n1 || string(sbuf[:n1]) != string(d1) {
			x.Fail("udp.read/datagram-bytes", "the blocking read in the posted handler returned %d bytes for a %d-byte datagram", stolenN, n1)
		}
		if calls != 0 {
			x.Fail("udp.read/completed-without-datagram", "the datagram was taken by a blocking read earlier in the batch, yet the waiting read completed: (%v, %d) after %d callbacks", gotErr, gotN, calls)
		}
	} else {
		_ = stealErr
		if calls != 1 || gotErr != nil || gotN != n1 || string(bufA[:n1]) != string(d1) || gotFrom != want {
			x.Fail("udp.read/datagram-bytes", "first datagram (%d bytes from %s): the waiting read completed %d times with (%v, %d) from %q", n1, want, calls, gotErr, gotN, gotFrom)
		}
		x.Outcome("stale/" + order)
		return
	}
	target2 := bufA
	if rebuf {
		setBuf(bufB)
		target2 = bufB
	}
	if err := sendtoRetry(raw, d2, to); err != nil {
		x.Inconclusive("sendto: " + err.Error())
	}
	if !kern.AwaitReadReady(fd, settleGuard) && calls == 0 {
		x.Inconclusive("second datagram did not arrive")
	}
	for i := 0; i < 3 && calls == 0; i++ {
		ioc.PollOne()
	}
	if calls != 1 {
		x.Fail("udp.read/datagram-not-delivered", "a waiting read whose first datagram was taken by a blocking read earlier in the same batch: after the next datagram (%d bytes) arrived its callback ran %d times", n2, calls)
	}
	if gotErr != nil || gotN != n2 || gotFrom != want {
		x.Fail("udp.read/datagram-bytes", "the read that waited again after a stale readiness event completed with (%v, %d) from %q; the datagram has %d bytes and came from %s", gotErr, gotN, gotFrom, n2, want)
	}
	if string(target2[:n2]) != string(d2) {
		x.Fail("mcast.AsyncRead/wrong-buffer", "the %d bytes of the datagram are not in the buffer designated for the pending read (re-designated in between: %v)", n2, rebuf)
	}
	if kern.WouldNotBlockRead(fd) {
		x.Fail("udp.read/phantom-datagram", "more datagrams are queued than were sent")
	}
	x.Outcome("stale/" + order)
}
