//go:build verif

// Stand-alone replays of C16 findings, without the exploration engine.
package standalone

import (
	"testing"

	"github.com/talostrading/sonic/codec/websocket"
	"verifmc/vstream"
	"verifmc/wsref"
)

func newStream(t *testing.T) (*websocket.Stream, *vstream.Stream) {
	ws, err := websocket.NewWebsocketStream(nil, nil, websocket.RoleClient)
	if err != nil {
		t.Fatal(err)
	}
	vs := vstream.New()
	if err := ws.VerifAttach(vs); err != nil {
		t.Fatal(err)
	}
	return ws, vs
}

// A one-byte message leaves a 7-byte frame in the pool; the next message above 65535 bytes used to panic
// in setPayloadLength.
func TestSmallThenLargeMessage(t *testing.T) {
	ws, vs := newStream(t)
	if err := ws.Write([]byte("a"), websocket.TypeText); err != nil {
		t.Fatal(err)
	}
	if err := ws.Write(make([]byte, 65536), websocket.TypeBinary); err != nil {
		t.Fatal(err)
	}
	frames, rest, _ := wsref.ParseAll(vs.Out, 1<<30)
	if len(frames) != 2 || len(rest) != 0 {
		t.Fatalf("wire: %d frames, %d stray bytes", len(frames), len(rest))
	}
}

// A frame on which SetPayload was never called used to be written with its pooled length.
func TestFrameWithoutSetPayload(t *testing.T) {
	ws, vs := newStream(t)
	f := ws.AcquireFrame()
	f.SetFIN().SetBinary()
	if err := ws.WriteFrame(f); err != nil {
		t.Fatal(err)
	}
	frames, rest, _ := wsref.ParseAll(vs.Out, 1<<30)
	if len(frames) != 1 || len(rest) != 0 {
		t.Fatalf("wire % x: %d frames, %d stray bytes", vs.Out, len(frames), len(rest))
	}
}
