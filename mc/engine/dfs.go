package engine

import (
	"encoding/json"
	"fmt"
	"hash/fnv"
	"os"
	"os/exec"
	"path/filepath"
	"runtime"
	"runtime/debug"
	"sort"
	"strings"
	"sync"
	"sync/atomic"
	"time"
)

// E1 — stateless depth-first exploration over choice points. The body builds fresh real objects and
// asks the explorer for every decision: Pick (free alternative, all explored) and Deviate (alternative 0
// is the default environment answer, every other alternative costs one deviation; the number of
// deviations per execution is bounded). Every execution runs to completion.

type point struct {
	N   int  `json:"n"`
	Dev bool `json:"dev"`
	C   int  `json:"c"`
}

type stopExec struct{}

// X is one execution.
type X struct {
	prefix       []int
	pts          []point
	labels       []string
	notes        []string
	outcome      string
	fail         *Violation
	inconclusive string
	nontrivial   bool
	defers       []func()
	maxPoints    int
	truncated    bool
	diverged     bool
	strict       bool
	Verbose      bool
}

func (x *X) choose(n int, dev bool, label string) int {
	if n <= 0 {
		HarnessError("choice point %q with %d alternatives", label, n)
	}
	i := len(x.pts)
	c := 0
	if i < len(x.prefix) {
		c = x.prefix[i]
		if c >= n {
			if x.strict {
				HarnessError("replay diverged at point %d (%s): recorded choice %d but only %d alternatives now; notes: %v", i, label, c, n, x.notes)
			}
			// Some nondeterminism the harness does not own (a timing fluke) made this prefix unrepeatable: the
			// subtree cannot be explored soundly. Count it, never report from it.
			x.diverged = true
			panic(stopExec{})
		}
	}
	if i >= x.maxPoints {
		x.truncated = true
		panic(stopExec{})
	}
	x.pts = append(x.pts, point{n, dev, c})
	if x.Verbose {
		x.labels = append(x.labels, label)
	}
	return c
}

// Pick is a free choice: every alternative is explored at no cost.
func (x *X) Pick(n int, label string) int { return x.choose(n, false, label) }

// Deviate is an environment answer: 0 is the default, the others cost one deviation each.
func (x *X) Deviate(n int, label string) int { return x.choose(n, true, label) }

// Note adds a trace line (kept in replay files and samples).
func (x *X) Note(format string, a ...any) {
	x.notes = append(x.notes, fmt.Sprintf(format, a...))
	if x.Verbose {
		fmt.Println("  | " + x.notes[len(x.notes)-1])
	}
}

// Outcome classifies the execution for the distinct-outcome count (vacuity guard).
func (x *X) Outcome(class string) {
	if x.outcome == "" {
		x.outcome = class
	} else if !strings.Contains(x.outcome, class) {
		x.outcome += "+" + class
	}
}

// Nontrivial marks the execution as non-trivial by the check's stated rule.
func (x *X) Nontrivial() { x.nontrivial = true }

// Fail records a violation and unwinds the execution.
func (x *X) Fail(sig, format string, a ...any) {
	if x.fail == nil {
		x.fail = &Violation{Sig: sig, Msg: fmt.Sprintf(format, a...)}
	}
	panic(stopExec{})
}

// FailSoft records a violation without unwinding (for use inside callbacks invoked by sonic, where a
// panic would cross library frames).
func (x *X) FailSoft(sig, format string, a ...any) {
	if x.fail == nil {
		x.fail = &Violation{Sig: sig, Msg: fmt.Sprintf(format, a...)}
	}
}

func (x *X) Failed() bool { return x.fail != nil }

// Inconclusive ends the execution without a verdict (a liveness guard of the harness expired).
func (x *X) Inconclusive(reason string) {
	x.inconclusive = reason
	panic(stopExec{})
}

// Defer registers teardown that runs after the execution, in reverse order.
func (x *X) Defer(f func()) { x.defers = append(x.defers, f) }

// Guard runs f; a panic raised inside (other than the explorer's own unwinding) is a violation with
// the given signature.
func (x *X) Guard(sig string, f func()) {
	defer func() {
		if r := recover(); r != nil {
			if _, ok := r.(stopExec); ok {
				panic(r)
			}
			lines := strings.Split(string(debug.Stack()), "\n")
			if len(lines) > 30 {
				lines = lines[:30]
			}
			if x.fail == nil {
				x.fail = &Violation{Sig: sig, Msg: fmt.Sprintf("panic: %v\n%s", r, strings.Join(lines, "\n"))}
			}
			panic(stopExec{})
		}
	}()
	f()
}

func (x *X) deviations() int {
	d := 0
	for _, p := range x.pts {
		if p.Dev && p.C > 0 {
			d++
		}
	}
	return d
}

func (x *X) choices() []int {
	out := make([]int, len(x.pts))
	for i, p := range x.pts {
		out[i] = p.C
	}
	// trailing defaults carry no information
	for len(out) > 0 && out[len(out)-1] == 0 {
		out = out[:len(out)-1]
	}
	return out
}

// DFS configures one exploration.
type DFS struct {
	Name          string        // unique per Run call inside a check (also the worker selector)
	Body          func(x *X)    //
	MaxDeviations int           //
	MaxPoints     int           // horizon per execution (default 400)
	Procs         int           // >1: shard over worker processes (kernel-backed checks)
	Threads       int           // >1: shard over goroutines (in-memory checks); ignored when Procs>1
	ShardDepth    int           // recursion depth at which subtrees are dealt to shards (default 2)
	Budget        time.Duration // wall-clock cap; when hit the result is not exhaustive
	HangTimeout   time.Duration // a single execution running longer is reported as a hang (default 30s)
	Confirm       int           // re-executions of a failing case before it is believed (default 4)
	WorkerProcs   int           // GOMAXPROCS of a worker process (default 2; 1 makes sync.Pool reuse deterministic)
	GCEvery       int           // >0: automatic GC off in workers, runtime.GC() every N executions (owns GC timing)
}

type DFSResult struct {
	Name                string         `json:"name"`
	Executions          int            `json:"executions"`
	Nontrivial          int            `json:"nontrivial"`
	Outcomes            map[string]int `json:"outcomes"`
	Inconclusive        int            `json:"inconclusive"`
	Unstable            int            `json:"unstable"`
	Truncated           int            `json:"truncated"`
	Diverged            int            `json:"diverged"`
	DivergedRetried     int            `json:"diverged_retried"`
	Repeats             int            `json:"repeats"`
	MaxPoints           int            `json:"max_points"`
	Exhaustive          bool           `json:"exhaustive"`
	Violations          []Violation    `json:"violations"`
	Samples             [][]string     `json:"samples"`
	ByDeviation         map[int]int    `json:"by_deviation"`
	InconclusiveReasons map[string]int `json:"inconclusive_reasons,omitempty"`
	UnstableSigs        map[string]int `json:"unstable_sigs,omitempty"`
	UnstableSamples     []string       `json:"unstable_samples,omitempty"`
}

func (r *DFSResult) merge(o DFSResult) {
	r.Executions += o.Executions
	r.Nontrivial += o.Nontrivial
	r.Inconclusive += o.Inconclusive
	r.Unstable += o.Unstable
	r.Truncated += o.Truncated
	r.Diverged += o.Diverged
	r.DivergedRetried += o.DivergedRetried
	r.Repeats += o.Repeats
	if o.MaxPoints > r.MaxPoints {
		r.MaxPoints = o.MaxPoints
	}
	r.Exhaustive = r.Exhaustive && o.Exhaustive
	for k, v := range o.Outcomes {
		r.Outcomes[k] += v
	}
	for k, v := range o.ByDeviation {
		r.ByDeviation[k] += v
	}
	if len(r.UnstableSamples) < 5 {
		r.UnstableSamples = append(r.UnstableSamples, o.UnstableSamples...)
	}
	for k, v := range o.UnstableSigs {
		if r.UnstableSigs == nil {
			r.UnstableSigs = map[string]int{}
		}
		r.UnstableSigs[k] += v
	}
	for k, v := range o.InconclusiveReasons {
		if r.InconclusiveReasons == nil {
			r.InconclusiveReasons = map[string]int{}
		}
		r.InconclusiveReasons[k] += v
	}
	for _, v := range o.Violations {
		found := false
		for i := range r.Violations {
			if r.Violations[i].Sig == v.Sig {
				found = true
				if less(v, r.Violations[i]) {
					r.Violations[i] = v
				}
			}
		}
		if !found {
			r.Violations = append(r.Violations, v)
		}
	}
	r.Samples = append(r.Samples, o.Samples...)
	if len(r.Samples) > 8 {
		sort.SliceStable(r.Samples, func(i, j int) bool { return len(r.Samples[i]) < len(r.Samples[j]) })
		r.Samples = append(r.Samples[:4:4], r.Samples[len(r.Samples)-4:]...)
	}
}

func newResult(name string) DFSResult {
	return DFSResult{Name: name, Outcomes: map[string]int{}, ByDeviation: map[int]int{}, Exhaustive: true}
}

type explorer struct {
	cfg      *DFS
	shard    int
	nshards  int
	res      DFSResult
	deadline time.Time
	runs     int
	current  atomic.Value // []int: prefix being executed (for the hang watchdog)
	started  atomic.Int64
}

// panicOrigin returns the function of the innermost non-runtime frame below the panic call in a stack dump
// taken inside the recovering deferred function.
func panicOrigin(stack string) string {
	lines := strings.Split(stack, "\n")
	i := 0
	for ; i < len(lines); i++ {
		if strings.HasPrefix(lines[i], "panic(") {
			break
		}
	}
	for i += 2; i < len(lines); i += 2 {
		fn := lines[i]
		if k := strings.LastIndex(fn, "("); k > 0 {
			fn = fn[:k]
		}
		if strings.HasPrefix(fn, "runtime.") || strings.HasPrefix(fn, "runtime/") || fn == "" {
			continue
		}
		return fn
	}
	return ""
}

func (e *explorer) run(prefix []int, verbose bool) *X {
	x := &X{prefix: prefix, maxPoints: e.cfg.MaxPoints, Verbose: verbose}
	if e.cfg.GCEvery > 0 {
		e.runs++
		if e.runs%e.cfg.GCEvery == 0 {
			runtime.GC()
		}
	}
	e.current.Store(prefix)
	e.started.Store(time.Now().UnixNano())
	func() {
		defer func() {
			if r := recover(); r != nil {
				if _, ok := r.(stopExec); !ok {
					st := string(debug.Stack())
					fn := panicOrigin(st)
					if !strings.HasPrefix(fn, "github.com/talostrading/sonic") {
						fmt.Fprintf(os.Stderr, "HARNESS-ERROR: panic outside Guard in %s with choices %v: %v\n%s\n", e.cfg.Name, prefix, r, st)
						os.Exit(2)
					}
					// the code under test panicked (the innermost non-runtime frame is the library's): a violation
					// of whatever property is being checked — none of them allows a panic on these inputs
					if x.fail == nil {
						lines := strings.Split(st, "\n")
						if len(lines) > 40 {
							lines = lines[:40]
						}
						x.fail = &Violation{Sig: "panic/" + strings.TrimPrefix(fn, "github.com/talostrading/sonic"), Msg: fmt.Sprintf("the library panicked: %v\n%s", r, strings.Join(lines, "\n"))}
					}
				}
			}
			for i := len(x.defers) - 1; i >= 0; i-- {
				x.defers[i]()
			}
		}()
		e.cfg.Body(x)
	}()
	e.started.Store(0)
	if fdCheck {
		// diagnostic (VERIF_FDCHECK=1): executions that leave the process with more descriptors than it had
		if ents, err := os.ReadDir("/proc/self/fd"); err == nil {
			if fdBase == 0 {
				fdBase = len(ents)
			} else if len(ents) > fdBase {
				if f, err := os.OpenFile("/tmp/fdleak.log", os.O_APPEND|os.O_CREATE|os.O_WRONLY, 0o644); err == nil {
					fmt.Fprintf(f, "%d -> %d descriptors after %s %v: %v\n", fdBase, len(ents), e.cfg.Name, prefix, x.notes)
					f.Close()
				}
				fdBase = len(ents)
			}
		}
	}
	return x
}

var fdCheck = os.Getenv("VERIF_FDCHECK") != ""
var fdBase int

func (e *explorer) account(x *X) {
	r := &e.res
	r.Executions++
	if len(x.pts) > r.MaxPoints {
		r.MaxPoints = len(x.pts)
	}
	d := x.deviations()
	r.ByDeviation[d]++
	if x.truncated {
		r.Truncated++
		r.Exhaustive = false
	}
	if x.inconclusive != "" {
		r.Inconclusive++
		if r.InconclusiveReasons == nil {
			r.InconclusiveReasons = map[string]int{}
		}
		r.InconclusiveReasons[x.inconclusive]++
		r.Exhaustive = false
	}
	if x.nontrivial || d > 0 {
		r.Nontrivial++
	}
	if x.outcome != "" {
		r.Outcomes[x.outcome]++
	}
	if len(x.notes) > 0 && (r.Executions%997 == 1 || len(r.Samples) < 2) && len(r.Samples) < 64 {
		r.Samples = append(r.Samples, append([]string{}, x.notes...))
	}
	if x.fail != nil {
		for _, v := range r.Violations {
			if v.Sig == x.fail.Sig && v.Cost <= d {
				r.Repeats++
				return // already confirmed with a case that is at least as simple
			}
		}
		// believe a failure only if the same choices fail the same way every time
		stable := true
		for i := 0; i < e.cfg.Confirm; i++ {
			y := e.run(x.choices(), false)
			if y.diverged || y.fail == nil || y.fail.Sig != x.fail.Sig {
				stable = false
				break
			}
		}
		if !stable {
			r.Unstable++
			if r.UnstableSigs == nil {
				r.UnstableSigs = map[string]int{}
			}
			r.UnstableSigs[x.fail.Sig]++
			if len(r.UnstableSamples) < 5 {
				r.UnstableSamples = append(r.UnstableSamples, fmt.Sprintf("%s: %s | %v", x.fail.Sig, x.fail.Msg, x.notes))
			}
			r.Exhaustive = false
			return
		}
		v := *x.fail
		v.Choices = x.choices()
		v.Trace = x.notes
		v.Cost = d
		v.Config = e.cfg.Name
		r.merge(DFSResult{Violations: []Violation{v}, Exhaustive: r.Exhaustive})
	}
}

func hashChoices(c []int) uint32 {
	h := fnv.New32a()
	for _, v := range c {
		h.Write([]byte{byte(v), byte(v >> 8), 0xff})
	}
	return h.Sum32()
}

// explore: owned says whether this shard accounts for the node; depth is the recursion depth.
func (e *explorer) explore(prefix []int, depth int, owned bool) {
	if !e.deadline.IsZero() && time.Now().After(e.deadline) {
		e.res.Exhaustive = false
		return
	}
	x := e.run(prefix, false)
	// a prefix that does not fit the alternatives offered now was recorded in an execution whose environment
	// answered differently (a timing fluke on real descriptors): try again before giving the subtree up
	for retry := 0; x.diverged && retry < 3; retry++ {
		e.res.DivergedRetried++
		x = e.run(prefix, false)
	}
	if x.diverged {
		e.res.Diverged++
		e.res.Exhaustive = false
		return
	}
	if owned {
		e.account(x)
	}
	pts := x.pts
	cost := 0
	base := make([]int, len(pts))
	for i, p := range pts {
		base[i] = p.C
	}
	for i := 0; i < len(pts); i++ {
		p := pts[i]
		if i >= len(prefix) {
			for alt := 1; alt < p.N; alt++ {
				c := cost
				if p.Dev {
					c++
				}
				if c > e.cfg.MaxDeviations {
					break
				}
				np := append(append(make([]int, 0, i+1), base[:i]...), alt)
				childOwned := owned
				if depth+1 < e.cfg.ShardDepth {
					childOwned = e.shard == 0
				} else if depth+1 == e.cfg.ShardDepth {
					childOwned = int(hashChoices(np)%uint32(e.nshards)) == e.shard
					if !childOwned {
						continue
					}
				} else if !owned {
					continue
				}
				e.explore(np, depth+1, childOwned)
			}
		}
		if p.Dev && p.C > 0 {
			cost++
		}
	}
}

func (d *DFS) defaults() {
	if d.MaxPoints == 0 {
		d.MaxPoints = 400
	}
	if d.ShardDepth == 0 {
		d.ShardDepth = 2
	}
	if d.HangTimeout == 0 {
		d.HangTimeout = 30 * time.Second
	}
	if d.Confirm == 0 {
		d.Confirm = 4
	}
	if d.WorkerProcs == 0 {
		d.WorkerProcs = 2
	}
}

func (d *DFS) runShard(shard, n int, deadline time.Time) DFSResult {
	e := &explorer{cfg: d, shard: shard, nshards: n, res: newResult(d.Name), deadline: deadline}
	e.explore(nil, 0, shard == 0)
	return e.res
}

// Run explores the whole tree within the bounds and returns the merged result.
func (d *DFS) Run() DFSResult {
	d.defaults()
	var deadline time.Time
	if d.Budget > 0 {
		deadline = time.Now().Add(d.Budget)
	}
	if w := os.Getenv("VERIF_WORKER"); w != "" {
		// worker process: "<name>|<i>/<n>"
		parts := strings.SplitN(w, "|", 2)
		if parts[0] != d.Name {
			return newResult(d.Name)
		}
		var i, n int
		fmt.Sscanf(parts[1], "%d/%d", &i, &n)
		// the budget is the parent's: a worker re-derives d.Budget on its own way here (earlier stages of a ladder are
		// skipped in no time in a worker, which would hand their whole budget on as spare time)
		if v := os.Getenv("VERIF_DEADLINE"); v != "" {
			var ns int64
			fmt.Sscanf(v, "%d", &ns)
			deadline = time.Time{}
			if ns > 0 {
				deadline = time.Unix(0, ns)
			}
		}
		if d.GCEvery > 0 {
			debug.SetGCPercent(-1)
		}
		e := &explorer{cfg: d, shard: i, nshards: n, res: newResult(d.Name), deadline: deadline}
		out := os.Getenv("VERIF_OUT")
		go func() { // hang watchdog
			for {
				time.Sleep(500 * time.Millisecond)
				st := e.started.Load()
				if st != 0 && time.Since(time.Unix(0, st)) > d.HangTimeout {
					pre, _ := e.current.Load().([]int)
					// the exploring goroutine is stuck for good, so its counters can be read: keep what it found so far
					res := e.res
					res.Exhaustive = false
					buf := make([]byte, 1<<16)
					buf = buf[:runtime.Stack(buf, true)]
					res.Violations = append(append([]Violation{}, res.Violations...), Violation{Sig: "hang", Msg: fmt.Sprintf("execution did not finish within %v\n%s", d.HangTimeout, firstLines(string(buf), 60)),
						Choices: pre, Config: d.Name, Cost: 99})
					b, _ := json.Marshal(res)
					os.WriteFile(out, b, 0o644)
					os.Exit(0)
				}
			}
		}()
		e.explore(nil, 0, i == 0)
		b, _ := json.Marshal(e.res)
		if err := os.WriteFile(out, b, 0o644); err != nil {
			HarnessError("worker cannot write %s: %v", out, err)
		}
		os.Exit(0)
	}
	switch {
	case d.Procs > 1:
		return d.runProcs(deadline)
	case d.Threads > 1:
		res := newResult(d.Name)
		var mu sync.Mutex
		var wg sync.WaitGroup
		for i := 0; i < d.Threads; i++ {
			wg.Add(1)
			go func(i int) {
				defer wg.Done()
				r := d.runShard(i, d.Threads, deadline)
				mu.Lock()
				res.merge(r)
				mu.Unlock()
			}(i)
		}
		wg.Wait()
		return res
	default:
		return d.runShard(0, 1, deadline)
	}
}

func firstLines(s string, n int) string {
	l := strings.Split(s, "\n")
	if len(l) > n {
		l = l[:n]
	}
	return strings.Join(l, "\n")
}

func (d *DFS) runProcs(deadline time.Time) DFSResult {
	res := newResult(d.Name)
	dir := filepath.Join(Root, ".scratch", fmt.Sprintf("w-%d-%s", os.Getpid(), sanitize(d.Name)))
	os.MkdirAll(dir, 0o755)
	defer os.RemoveAll(dir)
	var mu sync.Mutex
	var wg sync.WaitGroup
	for i := 0; i < d.Procs; i++ {
		wg.Add(1)
		go func(i int) {
			defer wg.Done()
			out := filepath.Join(dir, fmt.Sprintf("%d.json", i))
			cmd := exec.Command(os.Args[0], os.Args[1:]...)
			var dl int64
			if !deadline.IsZero() {
				dl = deadline.UnixNano()
			}
			cmd.Env = append(os.Environ(), fmt.Sprintf("VERIF_WORKER=%s|%d/%d", d.Name, i, d.Procs), "VERIF_OUT="+out, fmt.Sprintf("GOMAXPROCS=%d", d.WorkerProcs), fmt.Sprintf("VERIF_DEADLINE=%d", dl))
			var stderr strings.Builder
			cmd.Stderr = &stderr
			cmd.Stdout = &stderr
			err := cmd.Run()
			b, rerr := os.ReadFile(out)
			if err != nil || rerr != nil {
				mu.Lock()
				defer mu.Unlock()
				fmt.Fprintf(os.Stderr, "HARNESS-ERROR: worker %d of %s failed: %v %v\n%s\n", i, d.Name, err, rerr, lastLines(stderr.String(), 60))
				os.Exit(2)
			}
			var r DFSResult
			if err := json.Unmarshal(b, &r); err != nil {
				HarnessError("worker %d output: %v", i, err)
			}
			if r.Outcomes == nil {
				r.Outcomes = map[string]int{}
			}
			if r.ByDeviation == nil {
				r.ByDeviation = map[int]int{}
			}
			mu.Lock()
			res.merge(r)
			mu.Unlock()
		}(i)
	}
	wg.Wait()
	return res
}

func lastLines(s string, n int) string {
	l := strings.Split(s, "\n")
	if len(l) > n {
		l = l[len(l)-n:]
	}
	return strings.Join(l, "\n")
}

func sanitize(s string) string {
	return strings.Map(func(r rune) rune {
		if r >= 'a' && r <= 'z' || r >= 'A' && r <= 'Z' || r >= '0' && r <= '9' {
			return r
		}
		return '_'
	}, s)
}

// ReplayChoices runs the body once with the recorded choices, verbosely.
func (d *DFS) ReplayChoices(choices []int) *Violation {
	d.defaults()
	if d.Procs > 1 {
		runtime.GOMAXPROCS(d.WorkerProcs)
	}
	e := &explorer{cfg: d, res: newResult(d.Name)}
	x := e.run(choices, true)
	if x.diverged {
		fmt.Println("replay diverged: the recorded choices do not fit the alternatives offered now")
	}
	if x.inconclusive != "" {
		fmt.Println("inconclusive:", x.inconclusive)
	}
	return x.fail
}

// DFSTotals accumulates results of several Run calls into a report.
type DFSTotals struct {
	R       DFSResult
	Configs []map[string]any
}

func (t *DFSTotals) Add(r DFSResult, rep *Report) {
	if t.R.Outcomes == nil {
		t.R = newResult("total")
	}
	t.Configs = append(t.Configs, map[string]any{"config": r.Name, "executions": r.Executions, "nontrivial": r.Nontrivial,
		"outcomes": len(r.Outcomes), "exhaustive": r.Exhaustive, "violations": len(r.Violations), "by_deviation": r.ByDeviation})
	t.R.merge(r)
	for _, v := range r.Violations {
		rep.Add(v)
	}
}

func (t *DFSTotals) Fill(rep *Report, rule string, bound int) {
	c := rep.Coverage
	c["evaluations"] = t.R.Executions
	c["distinct_nontrivial"] = t.R.Nontrivial
	c["rule"] = rule
	c["outcomes"] = t.R.Outcomes
	c["distinct_outcomes"] = len(t.R.Outcomes)
	c["inconclusive"] = t.R.Inconclusive
	if len(t.R.InconclusiveReasons) > 0 {
		c["inconclusive_reasons"] = t.R.InconclusiveReasons
	}
	c["unstable"] = t.R.Unstable
	if len(t.R.UnstableSigs) > 0 {
		c["unstable_signatures"] = t.R.UnstableSigs
		c["unstable_samples"] = t.R.UnstableSamples
	}
	c["truncated_at_horizon"] = t.R.Truncated
	c["diverged_prefixes"] = t.R.Diverged
	c["diverged_prefixes_retried"] = t.R.DivergedRetried
	c["further_cases_of_reported_violations"] = t.R.Repeats
	c["max_choice_points"] = t.R.MaxPoints
	c["exhaustive"] = t.R.Exhaustive
	c["deviation_bound_completed"] = bound
	c["executions_by_deviations"] = t.R.ByDeviation
	c["configs"] = t.Configs
	var samples []any
	for _, s := range t.R.Samples {
		samples = append(samples, s)
	}
	if len(samples) == 0 {
		samples = append(samples, "no trace recorded")
	}
	c["samples"] = samples
}
