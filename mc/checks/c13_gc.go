package checks

// C13 (c) — an object with an operation in flight stays alive although the program dropped every
// reference to it and the garbage collector ran.
//
// For each kind {Dial conn, AsyncAdapter, FIFO file, packet conn, listener, multicast peer} and each shape
// {read in flight; write in flight; both; both, then the read completes; both, then the write completes}
// the object is created in a non-inlined function that returns only descriptor numbers and, per started
// operation, a weak pointer to a sentinel that only that operation's completion callback captures. A GC
// (2 x runtime.GC) at each of the two interesting points is a deviation. Oracle: the sentinel of every
// operation still in flight is reachable (if it is not, the owner was collected: the execution stops there,
// because polling would dereference freed memory), and the completion arrives once the peer acts.

import (
	"fmt"
	"net"
	"net/netip"
	"os"
	"runtime"
	"syscall"
	"time"
	"weak"

	"github.com/talostrading/sonic"
	"github.com/talostrading/sonic/sonicopts"
	"golang.org/x/sys/unix"
	"verifmc/engine"
	"verifmc/kern"
)

type gcSentinel struct{ hits [4]int }

type gcObj struct {
	fd      int
	peer    int
	rdone   *int
	wdone   *int
	wr, ww  weak.Pointer[gcSentinel]
	hasR    bool
	hasW    bool
	cleanup func()
}

// fillSend writes until the socket stays unwritable: the kernel keeps moving bytes from the send queue to
// the peer's receive queue for a while, so one EAGAIN is not enough.
func fillSend(fd int) {
	chunk := make([]byte, 4096)
	quiet := 0
	for i := 0; i < 100000 && quiet < 3; i++ {
		if _, err := syscall.Write(fd, chunk); err != nil {
			quiet++
			kern.Poll(fd, unix.POLLOUT, 3)
			continue
		}
		quiet = 0
	}
}

func drainAll(fd int) {
	b := make([]byte, 1<<16)
	for {
		n, err := syscall.Read(fd, b)
		if err != nil || n <= 0 {
			return
		}
	}
}

//go:noinline
func gcCreate(x *engine.X, ioc *sonic.IO, kind string, wantR, wantW, rearm bool) *gcObj {
	g := &gcObj{rdone: new(int), wdone: new(int), hasR: wantR, hasW: wantW}
	rs, ws := &gcSentinel{}, &gcSentinel{}
	g.wr, g.ww = weak.Make(rs), weak.Make(ws)
	rdone, wdone := g.rdone, g.wdone
	// rearm: the first completion of the read starts the same read again from inside its own callback (an accept
	// loop, a receive loop); that second read is the one in flight when the collector runs
	var reissue func()
	rcb := func(err error, n int) {
		rs.hits[0]++
		*rdone++
		if rearm && *rdone == 1 && err == nil {
			reissue()
		}
	}
	wcb := func(err error, n int) { ws.hits[0]++; *wdone++ }
	var fdo sonic.FileDescriptor
	switch kind {
	case "tcp":
		lfd, addr, port, _ := kern.TCPListener()
		c, err := sonic.Dial(ioc, "tcp", kern.AddrString(addr, port))
		if err != nil {
			engine.HarnessError("Dial: %v", err)
		}
		p, _ := kern.AcceptRaw(lfd, settleGuard)
		syscall.Close(lfd)
		syscall.SetsockoptInt(c.RawFd(), syscall.SOL_SOCKET, syscall.SO_SNDBUF, 1)
		syscall.SetsockoptInt(p, syscall.SOL_SOCKET, syscall.SO_RCVBUF, 1) // fixed size: no receive-window auto-tuning
		fdo, g.fd, g.peer = c, c.RawFd(), p
		fd := g.fd
		g.cleanup = func() {
			syscall.SetsockoptLinger(fd, syscall.SOL_SOCKET, syscall.SO_LINGER, &syscall.Linger{Onoff: 1})
			syscall.Close(fd)
			kern.Abort(p)
		}
	case "adp":
		a, b, _ := kern.SocketPair()
		f := os.NewFile(uintptr(a), "sp")
		c, err := net.FileConn(f)
		f.Close()
		if err != nil {
			engine.HarnessError("FileConn: %v", err)
		}
		var ad *sonic.AsyncAdapter
		sonic.NewAsyncAdapter(ioc, c.(syscall.Conn), c, func(err error, a *sonic.AsyncAdapter) { ad = a })
		fdo, g.fd, g.peer = ad, ad.RawFd(), b
		// the net.Conn owns the descriptor (it has a finalizer): the harness keeps it and closes it itself
		g.cleanup = func() { c.Close(); syscall.Close(b) }
	case "fifo-r":
		r, w, _ := kern.Pipe(0)
		f, err := sonic.Open(ioc, fmt.Sprintf("/proc/self/fd/%d", r), syscall.O_RDONLY|syscall.O_NONBLOCK, 0)
		syscall.Close(r)
		if err != nil {
			engine.HarnessError("Open: %v", err)
		}
		fdo, g.fd, g.peer = f, f.RawFd(), w
		fd := g.fd
		g.cleanup = func() { syscall.Close(fd); syscall.Close(w) }
	case "pkt":
		pc, err := sonic.NewPacketConn(ioc, "udp", "127.0.0.1:0")
		if err != nil {
			engine.HarnessError("NewPacketConn: %v", err)
		}
		p, _, _ := kern.UDPSocket()
		g.fd, g.peer = pc.RawFd(), p
		fd := g.fd
		g.cleanup = func() { syscall.Close(fd); syscall.Close(p) }
		reissue = func() { pc.AsyncReadFrom(make([]byte, 8), func(err error, n int, _ net.Addr) { rcb(err, n) }) }
		reissue()
		return g
	case "lst":
		addr := kern.NextLoopback()
		l, err := sonic.Listen(ioc, "tcp", kern.AddrString(addr, 0), sonicopts.Nonblocking(true))
		if err != nil {
			engine.HarnessError("Listen: %v", err)
		}
		g.fd, g.peer = l.RawFd(), -1
		fd := g.fd
		g.cleanup = func() { syscall.Close(fd) }
		reissue = func() {
			l.AsyncAccept(func(err error, c sonic.Conn) {
				if c != nil {
					syscall.SetsockoptLinger(c.RawFd(), syscall.SOL_SOCKET, syscall.SO_LINGER, &syscall.Linger{Onoff: 1})
					c.Close()
				}
				rcb(err, 0)
			})
		}
		reissue()
		return g
	case "peer":
		p, err := newOwnPeer(ioc, "127.0.0.1")
		if err != nil {
			engine.HarnessError("NewUDPPeer: %v", err)
		}
		rp, _, _ := kern.UDPSocket()
		g.fd, g.peer = p.NextLayer().RawFd(), rp
		fd := g.fd
		g.cleanup = func() { syscall.Close(fd); syscall.Close(rp) }
		reissue = func() { p.AsyncRead(make([]byte, 8), func(err error, n int, _ netip.AddrPort) { rcb(err, n) }) }
		reissue()
		return g
	}
	if wantW {
		fillSend(g.fd)
		fdo.AsyncWrite([]byte{1, 2, 3}, wcb)
	}
	if wantR {
		reissue = func() { fdo.AsyncRead(make([]byte, 8), rcb) }
		reissue()
	}
	return g
}

func gcNow(x *engine.X, where string) bool {
	if x.Deviate(2, "GC "+where) == 1 {
		runtime.GC()
		runtime.GC()
		x.Note("GC %s", where)
		return true
	}
	return false
}

func c13GC(x *engine.X) {
	kinds := []string{"tcp", "adp", "fifo-r", "pkt", "lst", "peer"}
	kind := kinds[x.Pick(len(kinds), "kind")]
	shapes := []string{"read", "read, re-armed from its own completion"}
	if kind == "tcp" || kind == "adp" {
		shapes = []string{"both, read completes first", "read", "write", "both", "both, write completes first", "read, re-armed from its own completion"}
	}
	shape := shapes[x.Pick(len(shapes), "shape")]
	rearm := shape == "read, re-armed from its own completion"
	wantR := shape != "write"
	wantW := shape != "read" && !rearm
	// History: none, or an earlier object A (of any kind) on the same IO was closed before the object under test B
	// was created — so that B's descriptor number is the one A had — and A is closed AGAIN once B's operations are
	// in flight. A's second Close must not touch anything of B: neither the descriptor (the close family checks
	// that) nor B's registration with the IO, which is what keeps B alive.
	// ... or (last choice) the earlier object is an adapter with a read in flight whose net.Conn was closed directly,
	// the way websocket's CloseNextLayer does it: the adapter itself is never closed, so whatever it left in the
	// IO's tables is stale when B takes over the descriptor number.
	hist := x.Pick(2+len(c13Kinds), "an earlier object was closed before, and is closed again afterwards")
	var ioc *sonic.IO
	var g *gcObj
	if hist == 0 {
		var err error
		ioc, err = sonic.NewIO()
		if err != nil {
			engine.HarnessError("NewIO: %v", err)
		}
		g = gcCreate(x, ioc, kind, wantR, wantW, rearm)
	} else {
		e := newC13Env(x)
		ioc = e.ioc
		var a *c13Obj
		if hist == 1+len(c13Kinds) {
			a = c13Create(e, "adapter")
			a.kind = "adapter (read in flight, owner closed directly)"
			a.startRead()
			a.owner()
			a.close = func() error { return nil } // the adapter is never closed
			a.owner = nil
		} else {
			a = c13Create(e, c13Kinds[hist-1])
			a.close()
		}
		// Make B land on A's (first) descriptor number N: occupy every free number below N, then free as many of
		// them again as gcCreate allocates before B's own descriptor (a raw listener, the two ends of a pipe or socketpair).
		var fillers []int
		if len(a.fds) > 0 {
			target := a.fds[0]
			for {
				fd, err := syscall.Dup(0)
				if err != nil || fd >= target {
					if err == nil {
						syscall.Close(fd)
					}
					break
				}
				fillers = append(fillers, fd)
			}
			pre := map[string]int{"tcp": 1, "adp": 2, "fifo-r": 2}[kind]
			for i := 0; i < pre && len(fillers) > 0; i++ {
				syscall.Close(fillers[len(fillers)-1])
				fillers = fillers[:len(fillers)-1]
			}
			if pre > 0 && len(fillers) == 0 {
				// (no room below N for the helper descriptors: B will not land on N; the execution is still valid)
			}
		}
		g = gcCreate(x, ioc, kind, wantR, wantW, rearm)
		for _, fd := range fillers {
			syscall.Close(fd)
		}
		reused := false
		for _, fd := range a.fds {
			reused = reused || fd == g.fd
		}
		idBefore := kern.Identity(g.fd)
		a.close()
		if a.owner != nil {
			a.owner()
		}
		x.Note("history: %s closed, %s created on descriptor %d (reuses the number: %v), %s closed again", a.kind, kind, g.fd, reused, a.kind)
		if id := kern.Identity(g.fd); id != idBefore {
			x.Fail("fd/"+a.kind+".Close/foreign-close", "the second Close of a %s closed descriptor %d, which now belongs to a %s", a.kind, g.fd, kind)
		}
	}
	lsa, _ := syscall.Getsockname(g.fd)
	collected := false
	x.Defer(func() {
		g.cleanup()
		if hist == 0 {
			ioc.Close()
		}
	})
	x.Note("gc/%s/%s", kind, shape)
	gced := false
	readsWanted := 1
	if rearm {
		readsWanted = 2
	}
	alive := func(when string) {
		if !gced {
			return
		}
		if wantR && *g.rdone < readsWanted && g.wr.Value() == nil {
			collected = true
			x.Fail(fmt.Sprintf("gc/%s/%s/read-owner-collected", kind, shape), "%s: the read is still in flight but the object that owns it was garbage collected %s (its completion callback is unreachable)", kind, when)
		}
		if wantW && *g.wdone == 0 && g.ww.Value() == nil {
			collected = true
			x.Fail(fmt.Sprintf("gc/%s/%s/write-owner-collected", kind, shape), "%s: the write is still in flight but the object that owns it was garbage collected %s (its completion callback is unreachable)", kind, when)
		}
	}
	_ = collected
	if *g.rdone != 0 || (wantW && *g.wdone != 0) {
		x.Inconclusive("an operation completed inline")
	}
	gced = gcNow(x, "after the operations were started") || gced
	if gced {
		x.Nontrivial()
	}
	alive("after the operations were started")
	completeRead := func() {
		switch kind {
		case "lst":
			sa := lsa.(*syscall.SockaddrInet4)
			p, err := kern.ConnectRaw(sa.Addr, sa.Port)
			if err != nil {
				x.Inconclusive("connect: " + err.Error())
			}
			g.peer = p
			old := g.cleanup
			g.cleanup = func() { old(); kern.Abort(p) }
		case "pkt", "peer":
			syscall.Sendto(g.peer, []byte{9}, 0, lsa)
		default:
			syscall.Write(g.peer, []byte{9})
		}
		if !kern.AwaitReadReady(g.fd, settleGuard) {
			x.Inconclusive("peer data did not arrive")
		}
		had := *g.rdone
		for i := 0; i < 3 && *g.rdone == had; i++ {
			ioc.PollOne()
		}
		if *g.rdone != had+1 {
			x.Fail(fmt.Sprintf("gc/%s/%s/read-completion-lost", kind, shape), "%s: the peer acted, after 3 polls the read callback ran %d times (expected %d)", kind, *g.rdone, had+1)
		}
	}
	completeWrite := func() {
		dl := time.Now().Add(settleGuard)
		for kern.Poll(g.fd, unix.POLLOUT, 0)&unix.POLLOUT == 0 {
			drainAll(g.peer)
			if time.Now().After(dl) {
				x.Inconclusive("socket did not become writable")
			}
			kern.Poll(g.fd, unix.POLLOUT, 5)
		}
		for i := 0; i < 3 && *g.wdone == 0; i++ {
			ioc.PollOne()
		}
		if *g.wdone != 1 {
			x.Fail(fmt.Sprintf("gc/%s/%s/write-completion-lost", kind, shape), "%s: the socket became writable, after 3 polls the write callback ran %d times", kind, *g.wdone)
		}
	}
	first, second := completeRead, completeWrite
	if shape == "both, write completes first" || shape == "write" {
		first, second = completeWrite, completeRead
	}
	if rearm {
		// first completion: its callback starts the read again; that one is in flight when the collector runs
		completeRead()
		if *g.rdone != 1 {
			x.Inconclusive("the re-armed read completed at once")
		}
		if g2 := gcNow(x, "after the read was re-armed from its own completion"); g2 {
			gced = true
			x.Nontrivial()
		}
		alive("after the read was re-armed from its own completion")
		completeRead()
		x.Outcome("gc/" + kind + "/" + shape)
		return
	}
	if !(wantR && wantW) {
		if wantR {
			completeRead()
		} else {
			completeWrite()
		}
		x.Outcome("gc/" + kind + "/" + shape)
		return
	}
	first()
	if wantW && shape != "both, write completes first" && *g.wdone != 0 {
		x.Inconclusive("the write completed together with the read")
	}
	if g2 := gcNow(x, "after the first completion"); g2 {
		gced = true
		x.Nontrivial()
	}
	alive("after the other operation completed")
	second()
	x.Outcome("gc/" + kind + "/" + shape)
}
