#!/bin/bash
# run.sh <Cxx> quick|thorough          build the harness against /repo's working tree (hooks on) and run one check
# run.sh <Cxx> replay <file>           replay a stored violation
# run.sh build                         build only (used by setup)
set -u
ROOT="$(cd "$(dirname "$0")" && pwd)"   # /verif, or a snapshot of it (vp run): binaries, scratch and evidence stay with the copy that runs
cd "$ROOT/mc" || exit 2
export GOFLAGS=-mod=mod GOPROXY=off GOCACHE="${GOCACHE:-/verif/.gocache}" VERIF_ROOT="${VERIF_ROOT:-$ROOT}"
unset GOSUMDB GOTOOLCHAIN
mkdir -p $ROOT/.bin $ROOT/.scratch
# The registered commands always explore /repo. VERIF_REPO (used only for background experiments, e.g. `vp run
# --with-repo`) points the build at another checkout through an alternative go.mod.
REPO="${VERIF_REPO:-/repo}"
MODFLAG=""
if [ "$REPO" != /repo ]; then
  sed "s|=> /repo|=> $REPO|" go.mod > $ROOT/.scratch/alt.mod; cp "$REPO/go.sum" $ROOT/.scratch/alt.sum
  MODFLAG="-modfile=$ROOT/.scratch/alt.mod"
fi
cp "$REPO/go.sum" go.sum 2>/dev/null
if ! go build $MODFLAG -tags verif -o $ROOT/.bin/verif ./cmd/verif 2>$ROOT/.scratch/build.log; then
  # a tree that does not compile with the harness cannot be explored; say so loudly (exit 2 = harness error, never a verdict)
  echo "HARNESS-ERROR: build failed:"; cat $ROOT/.scratch/build.log; exit 2
fi
build_c05() {
  # C05 needs scheduling points inside the poller: rewrite the working-tree copies of internal/poll_linux.go and
  # internal/eventfd.go (nothing under /repo is touched) and build through an overlay that also adds the shim package.
  go build -o $ROOT/.bin/xform ./cmd/xform 2>>$ROOT/.scratch/build.log || return 1
  rm -rf $ROOT/.scratch/overlay; $ROOT/.bin/xform "$REPO" $ROOT/.scratch/overlay >$ROOT/.scratch/xform.log 2>&1 || { cat $ROOT/.scratch/xform.log; return 1; }
  go build $MODFLAG -overlay $ROOT/.scratch/overlay/overlay.json -tags "verif c05" -o $ROOT/.bin/verif-c05 ./cmd/verif 2>>$ROOT/.scratch/build.log || return 1
  go build $MODFLAG -race -gcflags=all=-d=checkptr=0 -o $ROOT/.bin/c05race ./cmd/c05race 2>>$ROOT/.scratch/build.log || echo "note: -race build unavailable" >>$ROOT/.scratch/build.log
  return 0
}
if [ "${1:-}" = build ]; then build_c05 || { echo "HARNESS-ERROR: C05 build failed:"; cat $ROOT/.scratch/build.log; exit 2; }; exit 0; fi
if [ "${1:-}" = C05 ]; then
  build_c05 || { echo "HARNESS-ERROR: C05 build failed:"; cat $ROOT/.scratch/build.log; exit 2; }
  exec $ROOT/.bin/verif-c05 "$@"
fi
exec $ROOT/.bin/verif "$@"
