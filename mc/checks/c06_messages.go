package checks

// C06 — WebSocket message delivery fidelity under fragmentation x control interleaving x segmentation.
//
// Engine E1 (in memory): a real websocket.Stream attached (hook VerifAttach) to the scripted transport
// vstream. The session is generated from choice points: number of messages, type, payload length class
// (spanning the 7/16/64-bit encodings up to the configured maximum), fragmentation (every split into <= 3
// fragments at {0,1,mid,len-1,len}, empty fragments included), a control frame (ping/pong, payload 0 or 5)
// in every gap, a cut of the byte stream at every byte position (all positions for short streams, the
// header/edge positions of every frame for long ones), or byte-by-byte delivery. Structure choices
// (length class, API, completion mode) are free; fragmentation, control insertion and each cut are
// deviations from the default (unfragmented, no control, uncut) and all combinations of up to N deviations
// are enumerated. Wire bytes come from the independent encoder wsref. Oracle: delivered (type, n, payload)
// sequence == generated; frame APIs deliver the generated frame sequence; control callback once per
// control frame in order; one masked pong per ping on the outbound side.

import (
	"errors"
	"fmt"
	"strings"
	"time"

	"github.com/talostrading/sonic/codec/websocket"
	"verifmc/engine"
	"verifmc/vstream"
	"verifmc/wsref"
)

const c06Max = 70000

type wsMsg struct {
	typ     byte
	payload []byte
}

type wsSession struct {
	fmsg   []int // per frame: index of the message it belongs to, -1 for control frames
	frames []wsref.Frame
	ends   []int // end offset of every frame on the wire
	msgs   []wsMsg
	ctls   []wsref.Frame
	wire   []byte
}

func payloadBytes(seed, n int) []byte {
	b := make([]byte, n)
	for i := range b {
		b[i] = byte((i*31 + seed*17 + i/251) ^ 0x5a)
	}
	return b
}

// fragmentations of a payload of length n: fragment length lists.
func fragmentations(n int) [][]int {
	out := [][]int{{n}}
	pts := []int{0, 1, n / 2, n - 1, n}
	var ps []int
	seen := map[int]bool{}
	for _, p := range pts {
		if p >= 0 && p <= n && !seen[p] {
			seen[p] = true
			ps = append(ps, p)
		}
	}
	for i := 0; i < len(ps); i++ {
		for j := i + 1; j < len(ps); j++ {
			if ps[i] > ps[j] {
				ps[i], ps[j] = ps[j], ps[i]
			}
		}
	}
	for _, a := range ps {
		out = append(out, []int{a, n - a})
	}
	for i, a := range ps {
		for _, b := range ps[i:] {
			out = append(out, []int{a, b - a, n - b})
		}
	}
	return out
}

var ctlKinds = []struct {
	name string
	op   byte
	n    int
}{{"none", 0, 0}, {"ping0", wsref.OpPing, 0}, {"ping5", wsref.OpPing, 5}, {"pong0", wsref.OpPong, 0}, {"pong5", wsref.OpPong, 5}, {"ping125", wsref.OpPing, 125}, {"pong125", wsref.OpPong, 125}}

// genSession draws a session from the explorer.
func genSession(x *engine.X, maxMsgs int, lengths []int, later ...int) *wsSession {
	s := &wsSession{}
	nmsg := 1 + x.Deviate(maxMsgs, "extra messages")
	ctlSeed := 0
	addCtl := func(where string) {
		k := x.Deviate(len(ctlKinds), "control "+where)
		if k == 0 {
			return
		}
		ctlSeed++
		f := wsref.Frame{Fin: true, Op: ctlKinds[k].op, Payload: payloadBytes(100+ctlSeed, ctlKinds[k].n)}
		s.frames = append(s.frames, f)
		s.fmsg = append(s.fmsg, -1)
		s.ctls = append(s.ctls, f)
	}
	for m := 0; m < nmsg; m++ {
		typ := byte(wsref.OpBinary)
		if x.Deviate(2, "text instead of binary") == 1 {
			typ = wsref.OpText
		}
		var n int
		if m == 0 {
			n = lengths[x.Pick(len(lengths), "payload length class")]
		} else {
			short := []int{0, 1, 126, 65536}
			if len(later) > 0 {
				short = later
			}
			n = short[x.Pick(len(short), "payload length of later message")]
		}
		p := payloadBytes(m+1, n)
		fr := fragmentations(n)
		parts := fr[x.Deviate(len(fr), "fragmentation")]
		s.msgs = append(s.msgs, wsMsg{typ, p})
		off := 0
		for i, l := range parts {
			addCtl(fmt.Sprintf("before frame %d of message %d", i, m))
			op := typ
			if i > 0 {
				op = wsref.OpCont
			}
			s.frames = append(s.frames, wsref.Frame{Fin: i == len(parts)-1, Op: op, Payload: p[off : off+l]})
			s.fmsg = append(s.fmsg, m)
			off += l
		}
	}
	addCtl("after the last message")
	s.encode()
	return s
}

func (s *wsSession) encode() {
	s.wire, s.ends = nil, nil
	for _, f := range s.frames {
		s.wire = append(s.wire, f.Encode()...)
		s.ends = append(s.ends, len(s.wire))
	}
}

// cutPositions: every byte position of a short stream; for a long one the positions around every frame
// header and frame end.
func (s *wsSession) cutPositions() []int {
	n := len(s.wire)
	if n <= 48 {
		out := make([]int, 0, n)
		for i := 1; i < n; i++ {
			out = append(out, i)
		}
		return out
	}
	set := map[int]bool{}
	start := 0
	for _, e := range s.ends {
		for _, d := range []int{1, 2, 3, 4, 5, 9, 10, 11, 12} {
			if start+d < e {
				set[start+d] = true
			}
		}
		for _, d := range []int{-2, -1, 0} {
			if e+d > start && e+d < n {
				set[e+d] = true
			}
		}
		if mid := (start + e) / 2; mid > start {
			set[mid] = true
		}
		start = e
	}
	var out []int
	for i := 1; i < n; i++ {
		if set[i] {
			out = append(out, i)
		}
	}
	return out
}

// segment draws the segmentation: explicit cuts (each a deviation) or byte-by-byte.
func (s *wsSession) segment(x *engine.X) [][]byte {
	if len(s.wire) <= 300 && x.Deviate(2, "byte-by-byte delivery") == 1 {
		out := make([][]byte, len(s.wire))
		for i := range s.wire {
			out[i] = s.wire[i : i+1]
		}
		return out
	}
	var cuts []int
	for _, p := range s.cutPositions() {
		if x.Deviate(2, fmt.Sprintf("cut at %d", p)) == 1 {
			cuts = append(cuts, p)
		}
	}
	if len(cuts) > 0 {
		x.Note("cuts %v of %d", cuts, len(s.wire))
	}
	return split(s.wire, cuts)
}

var apiNames = []string{"NextFrame", "AsyncNextFrame", "NextMessage", "AsyncNextMessage"}

type delivered struct {
	frames []wsref.Frame // frame APIs
	msgs   []wsMsg       // message APIs
	ctls   []wsref.Frame // control callback (message APIs)
	err    error         // first error other than starvation
}

func newWS(x *engine.X, vs *vstream.Stream, max int) *websocket.Stream {
	ws, err := websocket.NewWebsocketStream(nil, nil, websocket.RoleClient)
	if err != nil {
		engine.HarnessError("NewWebsocketStream: %v", err)
	}
	ws.SetMaxMessageSize(max)
	if err := ws.VerifAttach(vs); err != nil {
		engine.HarnessError("VerifAttach: %v", err)
	}
	return ws
}

// readAll drives one read API until the script starves or an error is returned. maxReads bounds the
// number of API calls.
func readAll(x *engine.X, ws *websocket.Stream, vs *vstream.Stream, api int, deferred bool, maxReads int, bufSize int) delivered {
	var d delivered
	if deferred {
		vs.DeferRead = func() bool { return true }
		vs.DeferWrite = func() bool { return true }
	}
	ws.SetControlCallback(func(mt websocket.MessageType, payload []byte) {
		d.ctls = append(d.ctls, wsref.Frame{Fin: true, Op: byte(mt), Payload: append([]byte{}, payload...)})
	})
	// the caller's message buffer is a window into a larger array (len < cap), guarded by canaries on both sides
	arena := make([]byte, bufSize+32)
	for i := range arena {
		arena[i] = 0xC7
	}
	buf := arena[16 : 16+bufSize]
	guard := func(n int) {
		if n > len(buf) {
			x.Fail("ws.read/count-exceeds-buffer", "%s reported n=%d with a %d-byte buffer", apiNames[api], n, len(buf))
		}
		for i, c := range arena {
			if (i < 16 || i >= 16+bufSize) && c != 0xC7 {
				x.Fail("ws.read/wrote-outside-buffer", "%s changed byte %d of the array around its %d-byte buffer", apiNames[api], i-16, bufSize)
			}
		}
	}
	copyFrame := func(f websocket.Frame) wsref.Frame {
		return wsref.Frame{Fin: f.IsFIN(), Op: byte(f.Opcode()), Payload: append([]byte{}, f.Payload()...)}
	}
	for i := 0; i < maxReads; i++ {
		switch api {
		case 0:
			f, err := ws.NextFrame()
			if err != nil {
				if !errors.Is(err, vstream.ErrStarved) {
					d.err = err
				}
				return d
			}
			d.frames = append(d.frames, copyFrame(f))
		case 2:
			mt, n, err := ws.NextMessage(buf)
			guard(n)
			if err != nil {
				if !errors.Is(err, vstream.ErrStarved) {
					d.err = err
				}
				return d
			}
			d.msgs = append(d.msgs, wsMsg{byte(mt), append([]byte{}, buf[:n]...)})
		case 1, 3:
			calls := 0
			var cerr error
			if api == 1 {
				ws.AsyncNextFrame(func(err error, f websocket.Frame) {
					calls++
					cerr = err
					if err == nil {
						d.frames = append(d.frames, copyFrame(f))
					}
				})
			} else {
				ws.AsyncNextMessage(buf, func(err error, n int, mt websocket.MessageType) {
					guard(n)
					calls++
					cerr = err
					if err == nil {
						d.msgs = append(d.msgs, wsMsg{byte(mt), append([]byte{}, buf[:n]...)})
					}
				})
			}
			for steps := 0; calls == 0 && steps < 1_000_000; steps++ {
				if !vs.StepWrite() && !vs.StepRead() {
					break
				}
			}
			if calls > 1 {
				x.Fail("ws.read/callback-twice", "%s invoked its callback %d times", apiNames[api], calls)
			}
			if calls == 0 {
				if vs.Starved || (vs.PendingRead != nil && len(vs.In) == 0) {
					return d // parked on an exhausted script: the expected end
				}
				x.Fail("ws.read/callback-lost", "%s: no callback although the transport has nothing in flight (pending read=%v write=%v, %d bytes queued)", apiNames[api], vs.PendingRead != nil, vs.PendingWrite != nil, vs.InLen())
			}
			if cerr != nil {
				d.err = cerr
				return d
			}
		}
	}
	return d
}

func sameFrames(a, b []wsref.Frame) (int, bool) {
	for i := 0; i < len(a) && i < len(b); i++ {
		if a[i].Fin != b[i].Fin || a[i].Op != b[i].Op || string(a[i].Payload) != string(b[i].Payload) {
			return i, false
		}
	}
	if len(a) != len(b) {
		if len(a) < len(b) {
			return len(a), false
		}
		return len(b), false
	}
	return 0, true
}

// c06Judge compares what one read API delivered with what the peer sent.
func c06Judge(x *engine.X, api int, s *wsSession, d delivered, vs *vstream.Stream) {
	if d.err != nil {
		x.Fail("ws.read/conforming-session-rejected", "%s returned %v on a conforming session %v", apiNames[api], d.err, s.frames)
	}
	if vs.Overlap != "" {
		x.Fail("ws.read/overlapping-transport-"+vs.Overlap, "two transport %ss were in flight at once", vs.Overlap)
	}
	if api < 2 {
		if i, ok := sameFrames(d.frames, s.frames); !ok {
			x.Fail("ws.read/frame-sequence", "%s delivered %v, the peer sent %v (first difference at %d)", apiNames[api], d.frames, s.frames, i)
		}
	} else {
		if len(d.msgs) != len(s.msgs) {
			x.Fail("ws.read/message-count", "%s delivered %d messages, the peer sent %d (frames %v)", apiNames[api], len(d.msgs), len(s.msgs), s.frames)
		}
		for i := range s.msgs {
			if d.msgs[i].typ != s.msgs[i].typ {
				x.Fail("ws.read/message-type", "message %d delivered with type %d, sent as %d (frames %v)", i, d.msgs[i].typ, s.msgs[i].typ, s.frames)
			}
			if len(d.msgs[i].payload) != len(s.msgs[i].payload) {
				x.Fail("ws.read/message-length", "message %d delivered with %d bytes, sent %d (frames %v)", i, len(d.msgs[i].payload), len(s.msgs[i].payload), s.frames)
			}
			if string(d.msgs[i].payload) != string(s.msgs[i].payload) {
				x.Fail("ws.read/message-payload", "message %d payload differs from what was sent (frames %v)", i, s.frames)
			}
		}
		if i, ok := sameFrames(d.ctls, s.ctls); !ok {
			x.Fail("ws.read/control-callback", "control callback saw %v, the peer sent %v (first difference at %d)", d.ctls, s.ctls, i)
		}
	}
}

func c06Body(tier string) func(x *engine.X) {
	// (4093 and 4096: header + payload just beyond, and payload exactly at, the receive buffer's initial capacity)
	lengths := []int{1, 0, 125, 126, 127, 4093, 4096, 65535, 65536, c06Max}
	maxMsgs := 2
	if tier == "thorough" {
		maxMsgs = 3
	}
	return func(x *engine.X) {
		api := x.Pick(4, "read API")
		deferred := false
		if api == 1 || api == 3 {
			deferred = x.Pick(2, "async completion inline/deferred") == 1
		}
		s := genSession(x, maxMsgs, lengths)
		segs := s.segment(x)
		x.Note("%s deferred=%v frames=%v wire=%d bytes in %d segments", apiNames[api], deferred, s.frames, len(s.wire), len(segs))
		if len(segs) > 1 || len(s.frames) > len(s.msgs) {
			x.Nontrivial()
		}
		vs := vstream.New()
		for _, sg := range segs {
			vs.Feed(sg)
		}
		ws := newWS(x, vs, c06Max)
		var d delivered
		x.Guard("ws.read/panic", func() {
			d = readAll(x, ws, vs, api, deferred, len(s.frames)+len(s.msgs)+3, c06Max+16)
		})
		c06Judge(x, api, s, d, vs)
		// outbound: exactly one masked pong per ping, same payload, same order
		vs.DeferWrite = nil
		vs.StepWrite()
		x.Guard("ws.Flush/panic", func() { ws.Flush() })
		out, rest, _ := wsref.ParseAll(vs.Out, 1<<20)
		var wantPongs []wsref.Frame
		for _, c := range s.ctls {
			if c.Op == wsref.OpPing {
				wantPongs = append(wantPongs, wsref.Frame{Fin: true, Op: wsref.OpPong, Payload: c.Payload})
			}
		}
		var gotOut []wsref.Frame
		for _, p := range out {
			gotOut = append(gotOut, p.Frame)
			if !p.Masked {
				x.Fail("ws.write/unmasked", "client wrote an unmasked frame %v", p.Frame)
			}
		}
		if _, ok := sameFrames(gotOut, wantPongs); !ok || len(rest) != 0 {
			x.Fail("ws.read/pongs", "outbound frames %v (+%d stray bytes), expected pongs %v", gotOut, len(rest), wantPongs)
		}
		x.Outcome(fmt.Sprintf("%s/%dmsg/%dfr/%dctl", apiNames[api], len(s.msgs), len(s.frames)-len(s.ctls), len(s.ctls)))
	}
}

func c06DFS(tier string) *engine.DFS {
	dev := 2
	if tier == "thorough" {
		dev = 3
	}
	return &engine.DFS{Name: "messages@" + tier, Body: c06Body(tier), Procs: 16, WorkerProcs: 1, ShardDepth: 3, MaxDeviations: dev, MaxPoints: 600, HangTimeout: 60 * time.Second}
}

func C06(tier string) *engine.Report {
	rep := engine.NewReport("C06", tier, "exploration")
	var tot engine.DFSTotals
	d := c06DFS(tier)
	tot.Add(d.Run(), rep)
	// a second session on the same Stream (the in-memory driver above never goes through the opening handshake)
	tot.Add(c18ResumedDFS(tier).Run(), rep)
	// payload-inspecting reader option: ValidateUTF8(true) against every fragmentation of short text and binary payloads
	ures := c06UTF8DFS(tier).Run()
	tot.Add(ures, rep)
	ares := c06AnswerDFS(tier).Run()
	tot.Add(ares, rep)
	rep.Coverage["answering_reader"] = map[string]any{"executions": ares.Executions, "finished": ares.Exhaustive, "violations": len(ares.Violations)}
	rep.Coverage["utf8_family"] = map[string]any{"executions": ures.Executions, "finished": ures.Exhaustive, "violations": len(ures.Violations)}
	tot.Fill(rep, "sessions generated from choice points (message count, type, 10 payload length classes up to the maximum (incl. 4093 and 4096 around the receive buffer's initial capacity), fragmentation into <=3 fragments incl. empty ones, ping/pong (0, 5 or 125 bytes: the largest legal control payload) in any gap, a cut at any byte position or byte-by-byte delivery) "+
		"x 4 read APIs x inline/deferred completion; all combinations of up to N deviations (fragmentation, control insertion, text type, extra message, each cut) from the default session; "+
		"non-trivial = the stream was segmented or contained a control frame, or a deviation was taken; plus, over real TCP, every shape of an earlier session on the same Stream (dropped with unread input, queued replies, a failed write) x blocking/async handshake x 0-2 frames sent with the response: the second session delivers exactly what its server sent", d.MaxDeviations)
	return rep
}

func C06Replay(v engine.Violation, log func(string)) *engine.Violation {
	if strings.HasPrefix(v.Config, "resumed-session@") {
		return c18ResumedDFS(v.Config[16:]).ReplayChoices(v.Choices)
	}
	if strings.HasPrefix(v.Config, "answering@") {
		return c06AnswerDFS(v.Config[len("answering@"):]).ReplayChoices(v.Choices)
	}
	if strings.HasPrefix(v.Config, "utf8@") {
		return c06UTF8DFS(v.Config[5:]).ReplayChoices(v.Choices)
	}
	tier := "quick"
	if len(v.Config) > 9 {
		tier = v.Config[9:]
	}
	return c06DFS(tier).ReplayChoices(v.Choices)
}
