package checks

// C08 — ping/pong and the closing handshake follow the RFC 6455 state machine.
//
// Engine E2: BFS over peer events {data, ping(125 bytes), ping(""), pong, close(1000), close(3001, 123-byte reason), close(no
// payload), close(1 byte), close(1004), close(bad UTF-8 reason), RSV1 frame, transport EOF, transport error}
// and local calls {NextFrame, AsyncNextFrame, NextMessage, AsyncNextMessage, Write, AsyncWrite, Flush,
// AsyncFlush, Close, AsyncClose}; the state is a real Stream on the scripted transport, rebuilt by replaying
// the event history, next to a ~60-line model of RFC 6455 sections 5.5 and 7 (wsModel below).
// Blocking reads are enabled only where the model says they return on the input already queued;
// asynchronous reads may be started with nothing queued ("read in flight" is part of the key) and are
// completed by later peer events.
// Oracle on every transition: the outbound frame sequence parsed by wsref (opcode + un-masked payload;
// Close frames by status code) equals the model's wire, which implies at most one Close, nothing after
// it, pong order/echo and close echo rules; the result class of the call; callbacks exactly once;
// Pending() equals the model's queue; State() is in the set allowed for the model stage.
// Key = (model stage, State(), queued outbound frames, undelivered inbound units, read in flight,
// number of frames on the wire capped at 1 + whether a Close is on the wire). The contents of the wire are
// dropped from the key: they have been compared already, no handler reads its own past output, and the
// model's future wire is a function of the kept fields only.

import (
	"errors"
	"fmt"
	"io"
	"strings"

	"github.com/talostrading/sonic/codec/websocket"
	"verifmc/engine"
	"verifmc/vstream"
	"verifmc/wsref"
)

const (
	stOpen = iota
	stClosingByUs
	stClosedByPeer
	stAcked
	stDead
	stErrored
)

var stageNames = []string{"open", "closingByUs", "closedByPeer", "acked", "dead", "errored"}

type mframe struct {
	op      byte
	payload string
}

func (f mframe) String() string {
	if f.op == wsref.OpClose && len(f.payload) >= 2 {
		return fmt.Sprintf("close(%d)", int(f.payload[0])<<8|int(f.payload[1]))
	}
	return fmt.Sprintf("op%d(%q)", f.op, f.payload)
}

type munit struct {
	kind    string // data ping pong close violation eof terr
	payload string
	reply   uint16 // close: the status code our reply must carry
}

type rres struct {
	kind    string // frame msg err eos abnormal
	op      byte
	payload string
}

type wsModel struct {
	stage    int
	outq     []mframe
	wire     []mframe
	inq      []munit
	inflight int // -1 none, else API index (1 or 3)
	ended    bool
}

func (m *wsModel) flush() {
	m.wire = append(m.wire, m.outq...)
	m.outq = nil
}

func (m *wsModel) readable() bool { return m.stage == stOpen || m.stage == stClosingByUs }

// read runs one read call of the given API (0,1 frame; 2,3 message). resume: continue a read that was
// waiting for input. Returns (result, wait).
func (m *wsModel) read(api int, resume bool) (*rres, bool) {
	frameAPI := api < 2
	for {
		if !resume {
			m.flush()
			if !m.readable() {
				return &rres{kind: "eos"}, false
			}
		}
		resume = false
		if len(m.inq) == 0 {
			return nil, true
		}
		u := m.inq[0]
		m.inq = m.inq[1:]
		switch u.kind {
		case "data":
			if frameAPI {
				return &rres{"frame", wsref.OpText, u.payload}, false
			}
			return &rres{"msg", wsref.OpText, u.payload}, false
		case "ping":
			if m.stage == stOpen {
				m.outq = append(m.outq, mframe{wsref.OpPong, u.payload})
			}
			if frameAPI {
				return &rres{"frame", wsref.OpPing, u.payload}, false
			}
		case "pong":
			if frameAPI {
				return &rres{"frame", wsref.OpPong, u.payload}, false
			}
		case "close":
			if m.stage == stOpen {
				m.stage = stClosedByPeer
				m.outq = append(m.outq, mframe{wsref.OpClose, string(wsref.ClosePayload(u.reply, ""))})
			} else {
				m.stage = stAcked
			}
			if frameAPI {
				return &rres{"frame", wsref.OpClose, u.payload}, false
			}
		case "violation":
			if m.stage == stOpen {
				m.stage = stClosingByUs
				m.outq = append(m.outq, mframe{wsref.OpClose, string(wsref.ClosePayload(1002, ""))})
			}
			return &rres{kind: "err"}, false
		case "eof":
			m.stage = stDead
			if frameAPI {
				return &rres{kind: "abnormal"}, false
			}
			return &rres{kind: "err"}, false
		case "terr":
			m.stage = stErrored
			return &rres{kind: "err"}, false
		}
	}
}

func (m *wsModel) clone() *wsModel {
	c := *m
	c.outq = append([]mframe{}, m.outq...)
	c.wire = append([]mframe{}, m.wire...)
	c.inq = append([]munit{}, m.inq...)
	return &c
}

type smState struct {
	ws    *websocket.Stream
	vs    *vstream.Stream
	m     *wsModel
	calls int   // callbacks of the in-flight async read
	res   *rres // its result
	buf   []byte

	asyncOut *asyncOut
}

func smViol(sig, format string, a ...any) *engine.Violation {
	return &engine.Violation{Sig: sig, Msg: fmt.Sprintf(format, a...)}
}

func closeCode(p []byte) int {
	if len(p) < 2 {
		return -1
	}
	return int(p[0])<<8 | int(p[1])
}

// compareWire parses the implementation's outbound bytes and compares with the model's wire.
func (s *smState) compareWire(after string) *engine.Violation {
	frames, rest, _ := wsref.ParseAll(s.vs.Out, 1<<20)
	if len(rest) != 0 {
		return smViol("wsproto/wire-garbage", "after %s the outbound stream has %d stray bytes", after, len(rest))
	}
	var got []mframe
	closes := 0
	for _, p := range frames {
		got = append(got, mframe{p.Op, string(p.Payload)})
		if p.Op == wsref.OpClose {
			closes++
		}
	}
	same := len(got) == len(s.m.wire)
	for i := 0; same && i < len(got); i++ {
		if got[i].op != s.m.wire[i].op {
			same = false
		} else if got[i].op == wsref.OpClose {
			same = closeCode([]byte(got[i].payload)) == closeCode([]byte(s.m.wire[i].payload))
		} else {
			same = got[i].payload == s.m.wire[i].payload
		}
	}
	if !same {
		sig := "wsproto/wire-differs"
		switch {
		case closes > 1:
			sig = "wsclose/second-close-on-the-wire"
		case len(got) > len(s.m.wire) && closes == 1 && got[len(got)-1].op != wsref.OpClose:
			sig = "wsclose/frame-after-close"
		}
		return smViol(sig, "after %s the client has written %v; the RFC model expects %v (stage %s)", after, got, s.m.wire, stageNames[s.m.stage])
	}
	if s.ws.Pending() != len(s.m.outq) {
		return smViol("wsproto/pending-queue", "after %s Pending()=%d, the model has %v queued", after, s.ws.Pending(), s.m.outq)
	}
	st := s.ws.State()
	ok := false
	switch s.m.stage {
	case stOpen:
		ok = st == websocket.StateActive
	case stClosingByUs:
		ok = st == websocket.StateClosedByUs
	case stClosedByPeer, stAcked, stDead:
		ok = st == websocket.StateClosedByPeer || st == websocket.StateCloseAcked || st == websocket.StateTerminated
	case stErrored:
		ok = true
	}
	if !ok {
		return smViol("wsproto/state-vs-stage", "after %s State()=%s but the session is in stage %s", after, st, stageNames[s.m.stage])
	}
	return nil
}

func (s *smState) judgeRead(api int, want *rres, f websocket.Frame, mt websocket.MessageType, n int, err error, after string) *engine.Violation {
	switch want.kind {
	case "frame":
		if err != nil || f == nil {
			return smViol("wsproto/read-result", "%s: expected frame %v, got err=%v", after, mframe{want.op, want.payload}, err)
		}
		if byte(f.Opcode()) != want.op || (want.op != wsref.OpClose && string(f.Payload()) != want.payload) {
			return smViol("wsproto/read-result", "%s: expected frame %v, got opcode %d payload %q", after, mframe{want.op, want.payload}, f.Opcode(), f.Payload())
		}
	case "msg":
		if err != nil || byte(mt) != want.op || string(s.buf[:n]) != want.payload {
			return smViol("wsproto/read-result", "%s: expected message %q, got type=%d n=%d err=%v", after, want.payload, mt, n, err)
		}
	case "err":
		if err == nil {
			return smViol("wsproto/read-result", "%s: expected an error, got nil", after)
		}
	case "eos":
		if !errors.Is(err, io.EOF) {
			return smViol("wsproto/end-of-stream-not-reported", "%s: expected end-of-stream (io.EOF), got %v", after, err)
		}
	case "abnormal":
		if f == nil || !f.Opcode().IsClose() || closeCode(f.Payload()) != 1006 {
			return smViol("wsproto/abnormal-closure-not-surfaced", "%s: transport ended, expected a Close(1006) frame, got frame=%v err=%v", after, f, err)
		}
	}
	return nil
}

type smOp struct {
	label string
	do    func(s *smState) (bool, *engine.Violation)
}

func smOps() []smOp {
	var ops []smOp
	peer := func(label string, u munit, wire []byte) {
		ops = append(ops, smOp{"peer:" + label, func(s *smState) (bool, *engine.Violation) {
			m := s.m
			if m.ended || m.stage == stErrored || len(m.inq) >= 3 {
				return false, nil
			}
			switch u.kind {
			case "eof":
				if wire != nil {
					s.vs.Feed(wire) // the transport ends in the middle of a frame
				}
				s.vs.Term = io.EOF
				m.ended = true
			case "terr":
				s.vs.Term = errScripted
				m.ended = true
			default:
				s.vs.Feed(wire)
			}
			m.inq = append(m.inq, u)
			if m.inflight >= 0 {
				api := m.inflight
				want, wait := m.read(api, true)
				for i := 0; i < 16 && s.vs.StepRead(); i++ {
				}
				if wait {
					if s.calls != 0 {
						return true, smViol("wsproto/async-read-early", "async read completed although the model still waits for input")
					}
				} else {
					m.inflight = -1
					if s.calls != 1 {
						return true, smViol("wsproto/async-read-callbacks", "after peer:%s the in-flight %s ran its callback %d times, expected once (result %v)", label, apiNames[api], s.calls, want)
					}
					if v := s.asyncVerdict(api, want, "peer:"+label+" completing "+apiNames[api]); v != nil {
						return true, v
					}
				}
			}
			return true, s.compareWire("peer:" + label)
		}})
	}
	enc := func(f wsref.Frame) []byte { return f.Encode() }
	peer("data", munit{kind: "data", payload: "d"}, enc(wsref.Frame{Fin: true, Op: wsref.OpText, Payload: []byte("d")}))
	// the two pings are the extremes of the legal size class: empty and 125 bytes (the largest control payload)
	big := strings.Repeat("p", 125)
	peer("ping(125 bytes)", munit{kind: "ping", payload: big}, enc(wsref.Frame{Fin: true, Op: wsref.OpPing, Payload: []byte(big)}))
	peer("ping()", munit{kind: "ping", payload: ""}, enc(wsref.Frame{Fin: true, Op: wsref.OpPing}))
	peer("pong", munit{kind: "pong", payload: "q"}, enc(wsref.Frame{Fin: true, Op: wsref.OpPong, Payload: []byte("q")}))
	cl := func(label string, payload []byte, reply uint16) {
		peer(label, munit{kind: "close", payload: string(payload), reply: reply}, enc(wsref.Frame{Fin: true, Op: wsref.OpClose, Payload: payload}))
	}
	cl("close(1000)", wsref.ClosePayload(1000, ""), 1000)
	cl("close(3001, 123-byte reason)", wsref.ClosePayload(3001, strings.Repeat("r", 123)), 3001) // 125 bytes: the largest legal close payload
	cl("close(no payload)", nil, 1000)
	cl("close(1 byte)", []byte{3}, 1002)
	cl("close(1004)", wsref.ClosePayload(1004, ""), 1002)
	cl("close(bad utf8)", wsref.ClosePayload(1000, "\xff\xfe"), 1002)
	peer("rsv1-frame", munit{kind: "violation"}, enc(wsref.Frame{Fin: true, Rsv: 4, Op: wsref.OpText, Payload: []byte("x")}))
	peer("transport-eof", munit{kind: "eof"}, nil)
	// the connection drops after the first 3 bytes of a 5-byte text frame: still an unexpected end of the transport (1006)
	peer("transport-eof-mid-frame", munit{kind: "eof"}, enc(wsref.Frame{Fin: true, Op: wsref.OpText, Payload: []byte("hello")})[:3])
	peer("transport-error", munit{kind: "terr"}, nil)

	for api := 0; api < 4; api++ {
		api := api
		ops = append(ops, smOp{"local:" + apiNames[api], func(s *smState) (bool, *engine.Violation) {
			m := s.m
			if m.inflight >= 0 || m.stage == stErrored {
				return false, nil
			}
			async := api == 1 || api == 3
			if !async {
				if _, wait := m.clone().read(api, false); wait {
					return false, nil
				}
			}
			want, wait := m.read(api, false)
			if !async {
				var f websocket.Frame
				var mt websocket.MessageType
				var n int
				var err error
				if api == 0 {
					f, err = s.ws.NextFrame()
				} else {
					mt, n, err = s.ws.NextMessage(s.buf)
				}
				if v := s.judgeRead(api, want, f, mt, n, err, apiNames[api]); v != nil {
					return true, v
				}
				return true, s.compareWire(apiNames[api])
			}
			s.calls, s.res = 0, nil
			s.startAsync(api)
			if wait {
				m.inflight = api
				if s.calls != 0 {
					return true, smViol("wsproto/async-read-early", "%s completed with nothing to read", apiNames[api])
				}
				return true, s.compareWire(apiNames[api] + " (in flight)")
			}
			if s.calls != 1 {
				return true, smViol("wsproto/async-read-callbacks", "%s ran its callback %d times, expected once (result %v)", apiNames[api], s.calls, want)
			}
			if v := s.asyncVerdict(api, want, apiNames[api]); v != nil {
				return true, v
			}
			return true, s.compareWire(apiNames[api])
		}})
	}
	write := func(label string, do func(s *smState) (int, error)) {
		ops = append(ops, smOp{"local:" + label, func(s *smState) (bool, *engine.Violation) {
			m := s.m
			if m.stage == stErrored {
				return false, nil
			}
			calls, err := do(s)
			if calls != 1 {
				return true, smViol("wsproto/write-callbacks", "%s ran its callback %d times", label, calls)
			}
			if m.stage == stOpen {
				m.outq = append(m.outq, mframe{wsref.OpText, "w"})
				m.flush()
				if err != nil {
					return true, smViol("wsproto/write-refused-while-open", "%s on an open connection: %v", label, err)
				}
			} else if err == nil {
				return true, smViol("wsproto/write-not-refused", "%s returned nil in stage %s", label, stageNames[m.stage])
			}
			return true, s.compareWire(label)
		}})
	}
	write("Write", func(s *smState) (int, error) { return 1, s.ws.Write([]byte("w"), websocket.TypeText) })
	write("AsyncWrite", func(s *smState) (n int, err error) {
		s.ws.AsyncWrite([]byte("w"), websocket.TypeText, func(e error) { n++; err = e })
		return
	})
	flush := func(label string, do func(s *smState) (int, error)) {
		ops = append(ops, smOp{"local:" + label, func(s *smState) (bool, *engine.Violation) {
			if s.m.stage == stErrored {
				return false, nil
			}
			calls, err := do(s)
			if calls != 1 || err != nil {
				return true, smViol("wsproto/flush-result", "%s: callbacks=%d err=%v", label, calls, err)
			}
			s.m.flush()
			return true, s.compareWire(label)
		}})
	}
	flush("Flush", func(s *smState) (int, error) { return 1, s.ws.Flush() })
	flush("AsyncFlush", func(s *smState) (n int, err error) {
		s.ws.AsyncFlush(func(e error) { n++; err = e })
		return
	})
	closeOp := func(label string, do func(s *smState) (int, error)) {
		ops = append(ops, smOp{"local:" + label, func(s *smState) (bool, *engine.Violation) {
			m := s.m
			if m.stage == stErrored {
				return false, nil
			}
			calls, err := do(s)
			if calls != 1 {
				return true, smViol("wsproto/close-callbacks", "%s ran its callback %d times", label, calls)
			}
			switch m.stage {
			case stOpen:
				m.stage = stClosingByUs
				m.outq = append(m.outq, mframe{wsref.OpClose, string(wsref.ClosePayload(1001, ""))})
				m.flush()
				if err != nil {
					return true, smViol("wsproto/close-failed", "%s on an open connection: %v", label, err)
				}
			default:
				if err == nil {
					return true, smViol("wsproto/close-not-refused", "%s returned nil in stage %s", label, stageNames[m.stage])
				}
			}
			return true, s.compareWire(label)
		}})
	}
	// Two asynchronous calls issued back to back while the transport has not completed the first write yet (its
	// writes are deferred for the duration of the pair, then completed): the second call must already see the
	// effect of the first (a Close started locally stops further application writes at once, a second Close is
	// refused), and each callback runs exactly once.
	pair := func(first, second string) {
		label := first + "+" + second + " (transport write pending)"
		ops = append(ops, smOp{"local:" + label, func(s *smState) (bool, *engine.Violation) {
			m := s.m
			if m.stage == stErrored {
				return false, nil
			}
			s.vs.DeferWrite = func() bool { return true }
			var calls [2]int
			var errs [2]error
			issue := func(i int, what string) {
				switch what {
				case "AsyncWrite":
					s.ws.AsyncWrite([]byte("w"), websocket.TypeText, func(e error) { calls[i]++; errs[i] = e })
				case "AsyncClose":
					s.ws.AsyncClose(websocket.CloseGoingAway, "bye", func(e error) { calls[i]++; errs[i] = e })
				}
			}
			expect := func(what string) bool { // does the model accept the call?
				switch what {
				case "AsyncWrite":
					if m.stage == stOpen {
						m.outq = append(m.outq, mframe{wsref.OpText, "w"})
						m.flush()
						return true
					}
				case "AsyncClose":
					if m.stage == stOpen {
						m.stage = stClosingByUs
						m.outq = append(m.outq, mframe{wsref.OpClose, string(wsref.ClosePayload(1001, ""))})
						m.flush()
						return true
					}
				}
				return false
			}
			ok0 := expect(first)
			issue(0, first)
			ok1 := expect(second)
			issue(1, second)
			s.vs.DeferWrite = nil
			for i := 0; i < 16 && s.vs.StepWrite(); i++ {
			}
			for i, ok := range []bool{ok0, ok1} {
				if calls[i] != 1 {
					return true, smViol("wsproto/async-pair-callbacks", "%s: callback of call %d ran %d times", label, i+1, calls[i])
				}
				if ok && errs[i] != nil {
					return true, smViol("wsproto/async-pair-refused", "%s: call %d failed with %v in a stage where it is allowed", label, i+1, errs[i])
				}
				if !ok && errs[i] == nil {
					sig := "wsproto/write-not-refused"
					if []string{first, second}[i] == "AsyncClose" {
						sig = "wsproto/close-not-refused"
					}
					return true, smViol(sig, "%s: call %d (%s) returned nil although the preceding call had already taken effect (stage %s)", label, i+1, []string{first, second}[i], stageNames[m.stage])
				}
			}
			return true, s.compareWire(label)
		}})
	}
	pair("AsyncClose", "AsyncWrite")
	pair("AsyncClose", "AsyncClose")
	pair("AsyncWrite", "AsyncClose")
	pair("AsyncWrite", "AsyncWrite")
	closeOp("Close", func(s *smState) (int, error) { return 1, s.ws.Close(websocket.CloseGoingAway, "bye") })
	closeOp("AsyncClose", func(s *smState) (n int, err error) {
		s.ws.AsyncClose(websocket.CloseGoingAway, "bye", func(e error) { n++; err = e })
		return
	})
	return ops
}

type asyncOut struct {
	f   websocket.Frame
	mt  websocket.MessageType
	n   int
	err error
}

func (s *smState) startAsync(api int) {
	out := &asyncOut{}
	s.res = nil
	s.asyncOut = out
	if api == 1 {
		s.ws.AsyncNextFrame(func(err error, f websocket.Frame) {
			s.calls++
			out.err = err
			if f != nil {
				out.f = append(websocket.Frame{}, f...)
			}
		})
	} else {
		s.ws.AsyncNextMessage(s.buf, func(err error, n int, mt websocket.MessageType) {
			s.calls++
			out.err, out.n, out.mt = err, n, mt
		})
	}
}

func (s *smState) asyncVerdict(api int, want *rres, after string) *engine.Violation {
	o := s.asyncOut
	return s.judgeRead(api, want, o.f, o.mt, o.n, o.err, after)
}

func smSpec(depth int) *engine.BFS[*smState] {
	ops := smOps()
	labels := make([]string, len(ops))
	for i, o := range ops {
		labels[i] = o.label
	}
	return &engine.BFS[*smState]{
		Name: fmt.Sprintf("depth=%d", depth),
		New: func() *smState {
			vs := vstream.New()
			ws, err := websocket.NewWebsocketStream(nil, nil, websocket.RoleClient)
			if err != nil {
				engine.HarnessError("NewWebsocketStream: %v", err)
			}
			if err := ws.VerifAttach(vs); err != nil {
				engine.HarnessError("VerifAttach: %v", err)
			}
			return &smState{ws: ws, vs: vs, m: &wsModel{inflight: -1}, buf: make([]byte, 64)}
		},
		Ops:   labels,
		Depth: depth,
		Apply: func(s *smState, op int) (bool, *engine.Violation) { return ops[op].do(s) },
		Key: func(s *smState) string {
			var sb strings.Builder
			m := s.m
			fmt.Fprintf(&sb, "%s|%s|", stageNames[m.stage], s.ws.State())
			for _, f := range m.outq {
				sb.WriteString(f.String())
			}
			sb.WriteByte('|')
			for _, u := range m.inq {
				fmt.Fprintf(&sb, "%s(%q),", u.kind, u.payload)
			}
			closed := false
			for _, f := range m.wire {
				if f.op == wsref.OpClose {
					closed = true
				}
			}
			fmt.Fprintf(&sb, "|%d|%v|%v|%v|%d", m.inflight, m.ended, closed, len(m.wire) > 0, s.ws.Pending())
			return sb.String()
		},
		PanicSig: func(op int, r any) string { return "wsproto/panic/" + labels[op] },
	}
}

func C08(tier string) *engine.Report {
	rep := engine.NewReport("C08", tier, "model_checking")
	depth := 5
	if tier == "thorough" {
		depth = 8
	}
	var tot engine.BFSTotals
	deadline := engine.Cap(tier) // one wall-clock budget for the whole check
	sp := smSpec(depth)
	sp.Until = deadline
	tot.Add(sp.Name, sp.Run(), rep)
	// "exactly one Pong per Ping", "nothing after the Close" across a re-handshake on the same Stream: what an earlier
	// session queued and never wrote must not reach the next session's peer (the handshake driver's resumed-session family)
	rres := c18ResumedDFS(tier).Run()
	for _, v := range rres.Violations {
		rep.Add(v)
	}
	rep.Coverage["resumed_sessions"] = map[string]any{"config": rres.Name, "executions": rres.Executions, "finished": rres.Exhaustive, "violations": len(rres.Violations)}
	// every status code a peer's Close can carry, from the open state (E1, no deviations: a flat table)
	cres := c08CloseCodeDFS(tier).Run()
	for _, v := range cres.Violations {
		rep.Add(v)
	}
	rep.Coverage["close_code_table"] = map[string]any{"config": cres.Name, "sessions": cres.Executions, "codes": 1 << 16, "read_apis": 4, "finished": cres.Exhaustive, "violations": len(cres.Violations)}
	tot.Fill(rep, fmt.Sprintf("BFS to depth %d over 13 peer events and 10 local calls from the initial state of a real websocket.Stream on a scripted transport, in lock-step with an RFC 6455 control-plane model; "+
		"each distinct key is expanded once, so every event is applied in every reachable abstract state; every transition executes the real calls and compares outbound wire, call result, callbacks, Pending() and State()", depth))
	rep.Coverage["depth_bound"] = depth
	return rep
}

func C08Replay(v engine.Violation, log func(string)) *engine.Violation {
	if strings.HasPrefix(v.Config, "resumed-session@") {
		return c18ResumedDFS(v.Config[16:]).ReplayChoices(v.Choices)
	}
	if strings.HasPrefix(v.Config, "close-codes@") {
		return c08CloseCodeDFS(v.Config[len("close-codes@"):]).ReplayChoices(v.Choices)
	}
	var d int
	fmt.Sscanf(v.Config, "depth=%d", &d)
	return smSpec(d).Replay(v.Path, log)
}
