package checks

// C10 — BipBuffer is a FIFO of contiguous chunks whose claims never overlap queued data.
//
// Engine E2: the complete reachable state space of a real sonic.BipBuffer, per size, under the alphabet
// Claim(n) / Commit(n) / Consume(n) for n in 0..size+1 and Reset, explored breadth first to a fixpoint.
// Reference model: a FIFO of chunks (offset in the backing array + the tags written), plus the
// outstanding claim. After every Claim the harness fills the WHOLE returned slice with fresh tags, so a
// claim that overlaps queued data corrupts it observably.
//
// Key = (all integer fields of the implementation, read by reflection) + (model chunk layout, claim
// layout). Byte values are not part of the key: tags are fresh per claim and the implementation never
// branches on byte values, so two states with equal indices and equal layouts have equal futures up to
// a renaming of tags. The invariant has already established that memory at every queued position
// holds the model's tag, so the content is a function of the layout.

import (
	"fmt"
	"reflect"
	"strings"
	"unsafe"

	"github.com/talostrading/sonic"
	"verifmc/engine"
)

type bipChunk struct {
	off  int
	tags []byte
}

type bipState struct {
	size   int
	b      *sonic.BipBuffer
	mem    []byte // read-only window on the backing array
	base   uintptr
	chunks []bipChunk
	claim  *bipChunk
}

func bipNew(size int) *bipState {
	b := sonic.NewBipBuffer(size)
	s := &bipState{size: size, b: b}
	c := b.Claim(size)
	if len(c) != size {
		engine.HarnessError("fresh BipBuffer(%d).Claim(size) has length %d", size, len(c))
	}
	s.mem = c[:size:size]
	s.base = uintptr(unsafe.Pointer(unsafe.SliceData(c)))
	b.Reset()
	return s
}

func (s *bipState) off(sl []byte) int {
	if len(sl) == 0 {
		return -1
	}
	return int(uintptr(unsafe.Pointer(unsafe.SliceData(sl))) - s.base)
}

func (s *bipState) total() int {
	n := 0
	for _, c := range s.chunks {
		n += len(c.tags)
	}
	return n
}

func (s *bipState) fresh(k int) []byte {
	used := map[byte]bool{}
	for _, c := range s.chunks {
		for _, t := range c.tags {
			used[t] = true
		}
	}
	out := make([]byte, 0, k)
	for t := 1; len(out) < k; t++ {
		if !used[byte(t)] {
			out = append(out, byte(t))
		}
	}
	return out
}

func bipIndices(b *sonic.BipBuffer) string {
	v := reflect.ValueOf(b).Elem()
	var sb strings.Builder
	for i := 0; i < v.NumField(); i++ {
		if v.Field(i).Kind() == reflect.Int {
			fmt.Fprintf(&sb, "%d,", v.Field(i).Int())
		}
	}
	return sb.String()
}

func (s *bipState) key() string {
	var sb strings.Builder
	sb.WriteString(bipIndices(s.b))
	sb.WriteByte('|')
	for _, c := range s.chunks {
		fmt.Fprintf(&sb, "%d+%d,", c.off, len(c.tags))
	}
	sb.WriteByte('|')
	if s.claim != nil {
		fmt.Fprintf(&sb, "%d+%d", s.claim.off, len(s.claim.tags))
	}
	return sb.String()
}

func bipViol(sig, format string, a ...any) *engine.Violation {
	return &engine.Violation{Sig: sig, Msg: fmt.Sprintf(format, a...)}
}

// inv checks what must hold in every state.
func (s *bipState) inv() *engine.Violation {
	tot := s.total()
	if got := s.b.Committed(); got != tot {
		return bipViol("bip/committed-count", "Committed()=%d, model has %d queued bytes (chunks %v)", got, tot, s.layout())
	}
	// every queued byte is intact in memory
	for i, c := range s.chunks {
		for j, t := range c.tags {
			if s.mem[c.off+j] != t {
				return bipViol("bip/queued-byte-corrupted", "chunk %d byte %d at offset %d holds %d, model says %d (chunks %v)", i, j, c.off+j, s.mem[c.off+j], t, s.layout())
			}
		}
	}
	h := s.b.Head()
	if tot == 0 {
		if len(h) != 0 {
			return bipViol("bip/head-on-empty", "Head() returns %d bytes although nothing is queued", len(h))
		}
		return nil
	}
	if len(h) == 0 {
		return bipViol("bip/head-empty-while-queued", "Head() is empty although %d bytes are queued (chunks %v, indices %s)", tot, s.layout(), bipIndices(s.b))
	}
	// Head = rest of the oldest chunk + zero or more whole following chunks, contiguous in memory.
	if s.off(h) != s.chunks[0].off {
		return bipViol("bip/head-not-oldest", "Head() starts at offset %d, oldest queued byte is at %d (chunks %v)", s.off(h), s.chunks[0].off, s.layout())
	}
	rest := h
	for i, c := range s.chunks {
		if len(rest) == 0 {
			break
		}
		if len(rest) < len(c.tags) {
			return bipViol("bip/chunk-split", "Head() (len %d) ends inside chunk %d (len %d): a committed chunk is not readable as one slice (chunks %v)", len(h), i, len(c.tags), s.layout())
		}
		for j, t := range c.tags {
			if rest[j] != t {
				return bipViol("bip/head-order", "Head() byte %d is %d, FIFO order expects %d (chunks %v)", len(h)-len(rest)+j, rest[j], t, s.layout())
			}
		}
		rest = rest[len(c.tags):]
	}
	if len(rest) != 0 {
		return bipViol("bip/head-too-long", "Head() has %d bytes beyond everything queued", len(rest))
	}
	return nil
}

func (s *bipState) layout() string {
	var sb strings.Builder
	for _, c := range s.chunks {
		fmt.Fprintf(&sb, "[%d:%d]", c.off, c.off+len(c.tags))
	}
	return sb.String()
}

func (s *bipState) doClaim(n int) *engine.Violation {
	c := s.b.Claim(n)
	if len(c) > n {
		return bipViol("bip/claim-too-long", "Claim(%d) returned %d bytes", n, len(c))
	}
	if len(c) == 0 {
		if s.total() == 0 && n > 0 {
			return bipViol("bip/empty-buffer-short-claim", "nothing is queued, yet Claim(%d) returned %d bytes (size %d, indices %s)", n, len(c), s.size, bipIndices(s.b))
		}
		s.claim = nil
		return nil
	}
	o := s.off(c)
	if o < 0 || o+len(c) > s.size {
		return bipViol("bip/claim-out-of-bounds", "Claim(%d) = [%d,%d) outside the buffer of %d", n, o, o+len(c), s.size)
	}
	for i, q := range s.chunks {
		if o < q.off+len(q.tags) && q.off < o+len(c) {
			return bipViol("bip/claim-overlaps-queued", "Claim(%d) = [%d,%d) overlaps queued chunk %d = [%d,%d) (indices %s)", n, o, o+len(c), i, q.off, q.off+len(q.tags), bipIndices(s.b))
		}
	}
	want := n
	if want > s.size {
		want = s.size
	}
	if s.total() == 0 && len(c) != want {
		return bipViol("bip/empty-buffer-short-claim", "nothing is queued, yet Claim(%d) returned %d bytes instead of %d (size %d, indices %s)", n, len(c), want, s.size, bipIndices(s.b))
	}
	tags := s.fresh(len(c))
	copy(c, tags)
	s.claim = &bipChunk{off: o, tags: tags}
	return nil
}

func (s *bipState) doCommit(n int) *engine.Violation {
	r := s.b.Commit(n)
	want := 0
	if s.claim != nil {
		want = len(s.claim.tags)
		if n < want {
			want = n
		}
	}
	if len(r) != want {
		return bipViol("bip/commit-length", "Commit(%d) returned %d bytes, expected %d (outstanding claim: %v)", n, len(r), want, s.claim != nil)
	}
	if want > 0 {
		if s.off(r) != s.claim.off {
			return bipViol("bip/commit-position", "Commit(%d) returned [%d,..), the claim was at %d", n, s.off(r), s.claim.off)
		}
		s.chunks = append(s.chunks, bipChunk{off: s.claim.off, tags: s.claim.tags[:want]})
	}
	s.claim = nil
	return nil
}

func (s *bipState) doConsume(n int) *engine.Violation {
	// The amount consumed is min(n, len(Head())): Consume is documented on the head slice. The invariant
	// already checked that Head() is a whole number of chunks starting with the oldest.
	h := len(s.b.Head())
	s.b.Consume(n)
	k := n
	if k > h {
		k = h
	}
	for k > 0 && len(s.chunks) > 0 {
		c := &s.chunks[0]
		if k >= len(c.tags) {
			k -= len(c.tags)
			s.chunks = s.chunks[1:]
		} else {
			c.off += k
			c.tags = c.tags[k:]
			k = 0
		}
	}
	// a claim handed out earlier stays outstanding: claim-consume-commit orders are part of the property
	return nil
}

func bipSpec(size int) *engine.BFS[*bipState] {
	var ops []string
	type opd struct {
		kind byte
		n    int
	}
	var od []opd
	for n := 0; n <= size+1; n++ {
		ops = append(ops, fmt.Sprintf("Claim(%d)", n))
		od = append(od, opd{'c', n})
	}
	for n := 0; n <= size+1; n++ {
		ops = append(ops, fmt.Sprintf("Commit(%d)", n))
		od = append(od, opd{'m', n})
	}
	for n := 0; n <= size+1; n++ {
		ops = append(ops, fmt.Sprintf("Consume(%d)", n))
		od = append(od, opd{'s', n})
	}
	ops = append(ops, "Reset()")
	od = append(od, opd{'r', 0})
	return &engine.BFS[*bipState]{
		Name:  fmt.Sprintf("size=%d", size),
		Depth: 80, // the fixpoint is reached by depth 25 for size 12; the cap only bounds a defect-induced endless chain
		New:   func() *bipState { return bipNew(size) },
		Ops:   ops,
		Apply: func(s *bipState, op int) (bool, *engine.Violation) {
			d := od[op]
			switch d.kind {
			case 'c':
				return true, s.doClaim(d.n)
			case 'm':
				return true, s.doCommit(d.n)
			case 's':
				return true, s.doConsume(d.n)
			default:
				s.b.Reset()
				s.chunks, s.claim = nil, nil
				return true, nil
			}
		},
		Key: func(s *bipState) string { return s.key() },
		Inv: func(s *bipState) *engine.Violation { return s.inv() },
	}
}

func bipSizes(tier string) []int {
	if tier == "thorough" {
		return []int{1, 2, 3, 4, 5, 6, 7, 8, 9, 10, 11, 12}
	}
	return []int{1, 2, 3, 4, 5, 6}
}

func C10(tier string) *engine.Report {
	rep := engine.NewReport("C10", tier, "model_checking")
	var tot engine.BFSTotals
	deadline := engine.Cap(tier) // one wall-clock budget for the whole check
	for _, size := range bipSizes(tier) {
		sp := bipSpec(size)
		sp.Until = deadline
		r := sp.Run()
		if !r.Fixpoint {
			r.Capped = true // this search is meant to reach a fixpoint; anything less is reported as not exhaustive
		}
		tot.Add(sp.Name, r, rep)
	}
	tot.Fill(rep, "complete reachable state space of a real sonic.BipBuffer per size under Claim/Commit/Consume(0..size+1) and Reset, BFS to fixpoint; "+
		"state = all integer fields of the implementation + model chunk layout; every transition executes the real method and the FIFO-of-chunks model in lock-step")
	return rep
}

func C10Replay(v engine.Violation, log func(string)) *engine.Violation {
	var size int
	fmt.Sscanf(v.Config, "size=%d", &size)
	return bipSpec(size).Replay(v.Path, log)
}
