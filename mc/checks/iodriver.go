package checks

// Shared driver of C01 (exactly-once completion) and C03 (Pending()/RunPending/PollOne accounting):
// one real sonic.IO, two objects with raw peers, an action alphabet explored by E1, and a ledger that the
// harness keeps from its own actions and callback observations only (it never reads sonic state).

import (
	"errors"
	"fmt"
	"io"
	"net"
	"os"
	"syscall"
	"time"

	"github.com/talostrading/sonic"
	"github.com/talostrading/sonic/multicast"
	"github.com/talostrading/sonic/sonicerrors"
	"github.com/talostrading/sonic/sonicopts"
	"golang.org/x/sys/unix"
	"verifmc/engine"
	"verifmc/kern"
)

const settleGuard = 5 * time.Second

type ioOp struct {
	id        int
	obj       *ioObj
	kind      string // read write accept readfrom writeto
	calls     int
	done      bool
	abandoned bool // object closed while in flight
	err       error
	n         int
	buf       []byte
	all       bool
	chain     int // how many times this logical operation was re-issued
}

type ioObj struct {
	d       *ioDriver
	name    string
	kind    string // tcp acc fifo-r fifo-w pkt lst adp reg
	fdo     sonic.FileDescriptor
	pkt     sonic.PacketConn
	lst     sonic.Listener
	rawfd   int
	peer    int // raw peer descriptor, -1 when closed
	peers   []int
	port    int // pkt: sonic side port; lst: listening port
	addr    [4]byte
	pport   int // pkt: peer port
	closed  bool
	broken  bool   // descriptor closed underneath
	full    bool   // the send buffer was filled by the harness: writes would-block until the peer drains
	pholdID string // identity of that placeholder (to close it at teardown if the library left it open)
	phold   bool   // ... and its number re-occupied by an inert placeholder (an eventfd), so that nothing else can take it
	rd, wr  *ioOp
	sent    int // bytes the peer has written towards the object
	got     int // bytes delivered by read callbacks
	wrote   int // bytes the object's writes reported
	last    string
	keep    []any
	rearm   bool // next cancellation callback re-issues the operation
	ops     int  // completions delivered on this object
	eof     bool // the peer half-closed, closed or reset: reads terminate
}

type ioTimer struct {
	t      *sonic.Timer
	fd     int
	armed  bool
	short  bool
	closed bool
	fired  int
}

type ioDriver struct {
	x        *engine.X
	ioc      *sonic.IO
	epfd     int
	objs     []*ioObj
	timers   []*ioTimer
	posts    int // posted, not yet run
	opSeq    int
	handlers int // callbacks run (for PollOne accounting)
	c03      bool
	maxChain int
	inTop    bool
	quiet    bool
	scratch  string
}

func (d *ioDriver) fail(sig, format string, a ...any) { d.x.Fail(sig, format, a...) }

var portCounter int
var portPool []int

// ownPort returns a UDP port that belongs to this process alone. multicast.NewUDPPeer sets SO_REUSEPORT before it
// binds, so two processes that pick the same port BOTH succeed and then share its traffic: unicast datagrams are spread
// over both sockets and multicast probes of one reach the other — between the worker processes of one check, and
// between checks that happen to run at the same time. Every process therefore claims its ports (48 of them, used in
// rotation) through lock files created with O_EXCL that carry its pid; a lock whose owner is gone is taken over.
// Ports are below the ephemeral range (32768..60999), so kernel-assigned ports of other sockets never collide.
func ownPort() int {
	portCounter++
	if len(portPool) < 48 {
		if p := claimPort(); p > 0 {
			portPool = append(portPool, p)
			return p
		}
		if len(portPool) == 0 {
			engine.HarnessError("no free UDP port could be claimed under /dev/shm/verif-ports")
		}
	}
	return portPool[portCounter%len(portPool)]
}

func claimPort() int {
	dir := "/dev/shm/verif-ports"
	os.MkdirAll(dir, 0o777)
	me := os.Getpid()
	for tries := 0; tries < 12000; tries++ {
		port := 20000 + (me*131+portCounter*7+tries)%12000
		path := fmt.Sprintf("%s/%d", dir, port)
		f, err := os.OpenFile(path, os.O_CREATE|os.O_EXCL|os.O_WRONLY, 0o666)
		if err == nil {
			fmt.Fprintf(f, "%d", me)
			f.Close()
			return port
		}
		b, rerr := os.ReadFile(path)
		var owner int
		fmt.Sscanf(string(b), "%d", &owner)
		if rerr == nil && owner == me {
			return port
		}
		if rerr == nil && owner > 0 && syscall.Kill(owner, 0) == syscall.ESRCH {
			// the owner is gone: take the lock over (remove, then create exclusively again — whoever wins owns it)
			os.Remove(path)
			if f, err := os.OpenFile(path, os.O_CREATE|os.O_EXCL|os.O_WRONLY, 0o666); err == nil {
				fmt.Fprintf(f, "%d", me)
				f.Close()
				return port
			}
		}
	}
	return 0
}

// newOwnPeer creates a UDPPeer on a process-private port (host "" = all interfaces).
func newOwnPeer(ioc *sonic.IO, host string) (*multicast.UDPPeer, error) {
	var err error
	for i := 0; i < 8; i++ {
		var p *multicast.UDPPeer
		p, err = multicast.NewUDPPeer(ioc, "udp", fmt.Sprintf("%s:%d", host, ownPort()))
		if err == nil {
			return p, nil
		}
	}
	return nil, err
}

// fastFill makes writes on a loopback TCP socket would-block: a minimal send buffer, a fixed receive buffer on the
// peer (large enough that the peer advertises the window again as soon as it reads — with a tiny one the sender is left
// to its persist timer and "the peer drains" takes seconds), then raw writes until EAGAIN (some 200 KB, well under a
// millisecond; on loopback the segments are delivered and acknowledged in the writer's own context, so the state is
// stable at once).
func fastFill(fd, peer int) {
	syscall.SetsockoptInt(fd, syscall.SOL_SOCKET, syscall.SO_SNDBUF, 1)
	syscall.SetsockoptInt(peer, syscall.SOL_SOCKET, syscall.SO_RCVBUF, 65536)
	chunk := make([]byte, 16384)
	// "full" has to hold for a moment: under load the acknowledgements of the last segments are processed a little later
	// and open the window again, so the state is only taken as reached when the socket stays unwritable for a millisecond
	for tries := 0; tries < 20; tries++ {
		for {
			if _, err := syscall.Write(fd, chunk); err != nil {
				break
			}
		}
		if kern.Poll(fd, unix.POLLOUT, 1)&unix.POLLOUT == 0 {
			return
		}
	}
}

func lowestFreeFd() int {
	fd, err := syscall.Dup(0)
	if err != nil {
		engine.HarnessError("dup: %v", err)
	}
	syscall.Close(fd)
	return fd
}

func newIODriver(x *engine.X, c03 bool) *ioDriver {
	d := &ioDriver{x: x, c03: c03, maxChain: 2}
	d.epfd = lowestFreeFd()
	ioc, err := sonic.NewIO()
	if err != nil {
		engine.HarnessError("NewIO: %v", err)
	}
	if k := kern.FdKind(d.epfd); k != "anon_inode:[eventpoll]" {
		engine.HarnessError("expected the epoll descriptor at %d, found %q", d.epfd, k)
	}
	d.ioc = ioc
	x.Defer(func() {
		for _, o := range d.objs {
			o.teardown()
		}
		for _, t := range d.timers {
			if !t.closed {
				t.t.Close()
			}
		}
		ioc.Close()
	})
	return d
}

func (o *ioObj) teardown() {
	kern.Abort(o.peer)
	o.peer = -1
	for _, p := range o.peers {
		kern.Abort(p)
	}
	o.peers = nil
	if !o.closed {
		o.closed = true
		switch {
		case o.broken:
			// the descriptor was closed underneath on purpose; nothing of sonic's to close
		case o.fdo != nil:
			if o.kind == "tcp" || o.kind == "acc" {
				syscall.SetsockoptLinger(o.rawfd, syscall.SOL_SOCKET, syscall.SO_LINGER, &syscall.Linger{Onoff: 1})
			}
			o.fdo.Close()
		case o.pkt != nil:
			o.pkt.Close()
		case o.lst != nil:
			o.lst.Close()
		}
	}
	for _, k := range o.keep {
		if c, ok := k.(io.Closer); ok {
			c.Close()
		}
	}
	// The placeholder that re-occupied a descriptor number is the harness's: if it is still there (a Close that found
	// the descriptor missing from the epoll set returns early and, rightly, does not close a number that is not its
	// own any more), it is released here. Leaving it leaked one descriptor per execution, and after a thousand of
	// them sonic's select()-based connect indexed past its fd_set.
	if o.pholdID != "" && kern.Identity(o.rawfd) == o.pholdID {
		syscall.Close(o.rawfd)
	}
}

var ioKinds = []string{"tcp", "fifo-r", "pkt", "lst", "fifo-w", "adp", "acc"}

func (d *ioDriver) newObj(kind, name string) *ioObj {
	o := &ioObj{d: d, name: name, kind: kind, peer: -1}
	switch kind {
	case "tcp":
		lfd, addr, port, err := kern.TCPListener()
		if err != nil {
			engine.HarnessError("listener: %v", err)
		}
		c, err := sonic.Dial(d.ioc, "tcp", kern.AddrString(addr, port))
		if err != nil {
			engine.HarnessError("Dial: %v", err)
		}
		p, err := kern.AcceptRaw(lfd, settleGuard)
		syscall.Close(lfd)
		if err != nil {
			engine.HarnessError("accept: %v", err)
		}
		o.fdo, o.rawfd, o.peer = c, c.RawFd(), p
	case "acc":
		addr := kern.NextLoopback()
		l, err := sonic.Listen(d.ioc, "tcp", kern.AddrString(addr, 0), sonicopts.Nonblocking(true))
		if err != nil {
			engine.HarnessError("Listen: %v", err)
		}
		sa, _ := syscall.Getsockname(l.RawFd())
		p, err := kern.ConnectRaw(addr, sa.(*syscall.SockaddrInet4).Port)
		if err != nil {
			engine.HarnessError("connect: %v", err)
		}
		kern.AwaitReadable(l.RawFd(), settleGuard)
		c, err := l.Accept()
		if err != nil {
			engine.HarnessError("Accept: %v", err)
		}
		l.Close()
		o.fdo, o.rawfd, o.peer = c, c.RawFd(), p
	case "fifo-r", "fifo-w":
		r, w, err := kern.Pipe(4096)
		if err != nil {
			engine.HarnessError("pipe: %v", err)
		}
		if kind == "fifo-r" {
			f, err := sonic.Open(d.ioc, fmt.Sprintf("/proc/self/fd/%d", r), syscall.O_RDONLY|syscall.O_NONBLOCK, 0)
			if err != nil {
				engine.HarnessError("Open: %v", err)
			}
			syscall.Close(r)
			o.fdo, o.rawfd, o.peer = f, f.RawFd(), w
		} else {
			f, err := sonic.Open(d.ioc, fmt.Sprintf("/proc/self/fd/%d", w), syscall.O_WRONLY|syscall.O_NONBLOCK, 0)
			if err != nil {
				engine.HarnessError("Open: %v", err)
			}
			syscall.Close(w)
			o.fdo, o.rawfd, o.peer = f, f.RawFd(), r
		}
	case "reg":
		path := fmt.Sprintf("%s/reg-%d-%d", d.scratch, os.Getpid(), len(d.objs))
		os.WriteFile(path, []byte("0123456789"), 0o600)
		f, err := sonic.Open(d.ioc, path, syscall.O_RDWR, 0)
		os.Remove(path)
		if err != nil {
			engine.HarnessError("Open: %v", err)
		}
		o.fdo, o.rawfd = f, f.RawFd()
	case "pkt":
		pc, err := sonic.NewPacketConn(d.ioc, "udp", "127.0.0.1:0")
		if err != nil {
			engine.HarnessError("NewPacketConn: %v", err)
		}
		sa, _ := syscall.Getsockname(pc.RawFd())
		o.port = sa.(*syscall.SockaddrInet4).Port
		p, pport, err := kern.UDPSocket()
		if err != nil {
			engine.HarnessError("udp: %v", err)
		}
		o.pkt, o.rawfd, o.peer, o.pport = pc, pc.RawFd(), p, pport
	case "lst":
		o.addr = kern.NextLoopback()
		l, err := sonic.Listen(d.ioc, "tcp", kern.AddrString(o.addr, 0), sonicopts.Nonblocking(true))
		if err != nil {
			engine.HarnessError("Listen: %v", err)
		}
		sa, _ := syscall.Getsockname(l.RawFd())
		o.port = sa.(*syscall.SockaddrInet4).Port
		o.lst, o.rawfd = l, l.RawFd()
	case "adp":
		a, b, err := kern.SocketPair()
		if err != nil {
			engine.HarnessError("socketpair: %v", err)
		}
		f := os.NewFile(uintptr(a), "sp")
		c, err := net.FileConn(f)
		f.Close()
		if err != nil {
			engine.HarnessError("FileConn: %v", err)
		}
		var ad *sonic.AsyncAdapter
		sonic.NewAsyncAdapter(d.ioc, c.(syscall.Conn), c, func(err error, a *sonic.AsyncAdapter) {
			if err != nil {
				engine.HarnessError("NewAsyncAdapter: %v", err)
			}
			ad = a
		})
		o.fdo, o.rawfd, o.peer = ad, ad.RawFd(), b
		o.keep = append(o.keep, c)
	default:
		engine.HarnessError("unknown kind %s", kind)
	}
	d.objs = append(d.objs, o)
	return o
}

func (o *ioObj) other() *ioObj {
	for _, p := range o.d.objs {
		if p != o {
			return p
		}
	}
	return nil
}

func (o *ioObj) canCancel() bool { return o.fdo != nil && !o.closed }

// ---- callbacks --------------------------------------------------------------------------------------

// complete is the body of every completion callback.
func (d *ioDriver) complete(op *ioOp, err error, n int) {
	o := op.obj
	op.calls++
	d.handlers++
	if op.calls > 1 {
		d.fail(fmt.Sprintf("%s.%s/callback-twice", o.kind, op.kind), "%s: completion callback of %s#%d invoked %d times (last peer action: %s)", o.name, op.kind, op.id, op.calls, o.last)
	}
	if op.abandoned {
		d.fail(fmt.Sprintf("%s.%s/callback-after-close", o.kind, op.kind), "%s: callback of %s#%d (err=%v) invoked after Close returned", o.name, op.kind, op.id, err)
	}
	op.done, op.err, op.n = true, err, n
	o.ops++
	switch op.kind {
	case "read", "readfrom", "accept":
		if o.rd == op {
			o.rd = nil
		}
	default:
		if o.wr == op {
			o.wr = nil
		}
	}
	d.x.Note("  cb %s.%s#%d err=%v n=%d", o.name, op.kind, op.id, err, n)
	// result sanity
	if op.kind == "read" {
		if err == nil && n <= 0 {
			d.fail(o.kind+".read/success-without-bytes", "%s: read completed with (nil, %d)", o.name, n)
		}
		if n > 0 {
			if o.got+n > o.sent {
				d.fail(o.kind+".read/bytes-invented", "%s: read delivered %d bytes, only %d of the peer's %d were undelivered", o.name, n, o.sent-o.got, o.sent)
			}
			for i := 0; i < n; i++ {
				if op.buf[i] != streamByte(o.got+i) {
					d.fail(o.kind+".read/wrong-bytes", "%s: byte %d of the stream delivered as %d", o.name, o.got+i, op.buf[i])
				}
			}
			o.got += n
		}
	}
	if op.kind == "write" && n > 0 {
		o.wrote += n
	}
	// a cancellation callback that re-arms
	if o.rearm && errors.Is(err, sonicerrors.ErrCancelled) && !o.closed && op.chain < d.maxChain {
		// the same operation again, in the same form (an *All form may be satisfied in part at once and park again)
		variant := 0
		if op.all && (op.kind == "read" || op.kind == "write") {
			variant = 2
		}
		d.start(o, op.kind, variant, op.chain+1)
		return
	}
	d.behave(op)
}

func streamByte(i int) byte { return byte(i*7 + 3) }

// behave: what the handler does besides recording — a deviation from "nothing".
func (d *ioDriver) behave(op *ioOp) {
	if d.quiet {
		return // inside RunPending handlers start nothing new, so that it must return
	}
	o := op.obj
	oth := o.other()
	type beh struct {
		name string
		do   func()
	}
	list := []beh{{"nothing", func() {}}}
	if !o.closed && !o.broken {
		if op.chain < d.maxChain {
			list = append(list, beh{"re-issue", func() { d.start(o, op.kind, 0, op.chain+1) }})
		}
		if o.canCancel() {
			list = append(list, beh{"cancel-self", func() { d.cancel(o) }})
		}
		list = append(list, beh{"close-self", func() { d.close(o) }})
	}
	if oth != nil && !oth.closed && !oth.broken {
		if oth.canCancel() {
			list = append(list, beh{"cancel-other", func() { d.cancel(oth) }})
			list = append(list, beh{"cancel-other-which-rearms", func() {
				oth.rearm = true
				d.cancel(oth)
				oth.rearm = false
			}})
		}
		list = append(list, beh{"close-other", func() { d.close(oth) }})
	}
	if oth != nil && !oth.closed && !oth.broken && oth.lst != nil && kern.WouldNotBlockRead(oth.rawfd) {
		// the other object is a listener with a connection queued (and possibly an AsyncAccept waiting for exactly that
		// readiness later in this batch): this handler takes the connection with the blocking Accept, so the
		// readiness the poller has already harvested for the listener is stale
		list = append(list, beh{"accept-the-other-listener's-queued-connection-synchronously", func() {
			c, err := oth.lst.Accept()
			if err == nil && c != nil {
				syscall.SetsockoptLinger(c.RawFd(), syscall.SOL_SOCKET, syscall.SO_LINGER, &syscall.Linger{Onoff: 1})
				c.Close()
			}
		}})
	}
	if d.c03 && len(d.timers) > 0 && d.timers[0].armed && !d.timers[0].closed {
		// the usual "push the timeout back on every message": cancel the armed timer and schedule it afresh, from an
		// I/O completion — possibly in the very poll cycle in which the old schedule's expiry is already queued
		t := d.timers[0]
		list = append(list, beh{"push-the-timer-back", func() {
			if err := t.t.Cancel(); err != nil {
				d.fail("timer.Cancel/error", "Cancel: %v", err)
			}
			t.armed = false
			d.armTimer(t, 10*time.Second)
		}})
	}
	k := d.x.Deviate(len(list), "handler of "+o.name+"."+op.kind)
	if k > 0 {
		d.x.Note("  handler of %s.%s#%d: %s", o.name, op.kind, op.id, list[k].name)
	}
	list[k].do()
}

// start issues an asynchronous operation. variant: 0 plain, 1 forced deferred (dispatch counter at the
// limit, the state a chain of 32 inline completions reaches), 2 *All form.
func (d *ioDriver) start(o *ioObj, kind string, variant, chain int) {
	d.opSeq++
	op := &ioOp{id: d.opSeq, obj: o, kind: kind, chain: chain}
	forced := variant == 1
	saved := d.ioc.Dispatched
	if forced {
		d.ioc.Dispatched = sonic.MaxCallbackDispatch
	}
	d.x.Note("start %s.%s#%d variant=%d", o.name, kind, op.id, variant)
	switch kind {
	case "read":
		o.rd = op
		op.buf = make([]byte, 8)
		if variant == 2 {
			op.all = true
			op.buf = make([]byte, 4)
			o.fdo.AsyncReadAll(op.buf, func(err error, n int) { d.complete(op, err, n) })
		} else {
			o.fdo.AsyncRead(op.buf, func(err error, n int) { d.complete(op, err, n) })
		}
	case "write":
		o.wr = op
		op.buf = []byte{0xA0, 0xA1, 0xA2}
		if variant == 2 {
			op.all = true
			o.fdo.AsyncWriteAll(op.buf, func(err error, n int) { d.complete(op, err, n) })
		} else {
			o.fdo.AsyncWrite(op.buf, func(err error, n int) { d.complete(op, err, n) })
		}
	case "readfrom":
		o.rd = op
		op.buf = make([]byte, 16)
		if variant == 2 {
			op.all = true
			o.pkt.AsyncReadAllFrom(op.buf, func(err error, n int, _ net.Addr) { d.complete(op, err, n) })
		} else {
			o.pkt.AsyncReadFrom(op.buf, func(err error, n int, _ net.Addr) { d.complete(op, err, n) })
		}
	case "writeto":
		o.wr = op
		op.buf = []byte{0xB0, 0xB1}
		o.pkt.AsyncWriteTo(op.buf, &net.UDPAddr{IP: net.IPv4(127, 0, 0, 1), Port: o.pport}, func(err error) { d.complete(op, err, 0) })
	case "accept":
		o.rd = op
		o.lst.AsyncAccept(func(err error, c sonic.Conn) {
			if c != nil {
				// the accepted connection is not part of the scenario: release it without TIME_WAIT
				syscall.SetsockoptLinger(c.RawFd(), syscall.SOL_SOCKET, syscall.SO_LINGER, &syscall.Linger{Onoff: 1})
				c.Close()
			}
			d.complete(op, err, 0)
		})
	}
	if forced {
		d.ioc.Dispatched = saved
	}
}

func (d *ioDriver) cancel(o *ioObj) {
	var infl []*ioOp
	if o.rd != nil {
		infl = append(infl, o.rd)
	}
	if o.wr != nil {
		infl = append(infl, o.wr)
	}
	d.x.Note("cancel %s (%d in flight)", o.name, len(infl))
	o.fdo.Cancel()
	for _, op := range infl {
		if op.abandoned {
			continue // the object was closed by one of the cancellation callbacks
		}
		if op.calls != 1 {
			d.fail(fmt.Sprintf("%s.%s/cancel/not-completed-once", o.kind, op.kind), "%s: Cancel returned, %s#%d was in flight and its callback ran %d times", o.name, op.kind, op.id, op.calls)
		}
		if o.broken {
			// the descriptor is gone: removing the interest fails in the kernel and that error is what the
			// operation completes with — once, and with an error, is all that can be asked here
			if op.err == nil {
				d.fail(fmt.Sprintf("%s.%s/cancel/wrong-error", o.kind, op.kind), "%s: Cancel completed %s#%d without an error", o.name, op.kind, op.id)
			}
			continue
		}
		if !errors.Is(op.err, sonicerrors.ErrCancelled) {
			d.fail(fmt.Sprintf("%s.%s/cancel/wrong-error", o.kind, op.kind), "%s: Cancel completed %s#%d with %v, not a cancellation error", o.name, op.kind, op.id, op.err)
		}
	}
}

func (d *ioDriver) close(o *ioObj) {
	d.x.Note("close %s", o.name)
	var err error
	switch {
	case o.fdo != nil:
		if o.kind == "tcp" || o.kind == "acc" {
			syscall.SetsockoptLinger(o.rawfd, syscall.SOL_SOCKET, syscall.SO_LINGER, &syscall.Linger{Onoff: 1})
		}
		err = o.fdo.Close()
	case o.pkt != nil:
		err = o.pkt.Close()
	case o.lst != nil:
		err = o.lst.Close()
	}
	_ = err
	o.closed = true
	for _, op := range []*ioOp{o.rd, o.wr} {
		if op != nil {
			op.abandoned = true
		}
	}
	o.rd, o.wr = nil, nil
}

// ---- peer actions -----------------------------------------------------------------------------------

func (o *ioObj) peerSend(k int) {
	d := o.d
	b := make([]byte, k)
	for i := range b {
		b[i] = streamByte(o.sent + i)
	}
	var err error
	if o.kind == "pkt" {
		err = syscall.Sendto(o.peer, b, 0, &syscall.SockaddrInet4{Addr: [4]byte{127, 0, 0, 1}, Port: o.port})
	} else {
		_, err = syscall.Write(o.peer, b)
	}
	if err != nil {
		// the object's side is gone (EPIPE/ECONNRESET): an environment answer, nothing was sent
		d.x.Note("  peer write failed: %v", err)
		return
	}
	o.sent += k
	o.last = "peer-data"
	if !o.closed && !o.broken && !kern.AwaitReadReady(o.rawfd, settleGuard) {
		d.x.Inconclusive("data did not arrive")
	}
}

func (o *ioObj) settleRead() {
	if !o.closed && !o.broken && !kern.AwaitReadReady(o.rawfd, settleGuard) {
		o.d.x.Inconclusive("peer action not visible")
	}
}

// ledgerIO: operations in flight on open objects.
func (d *ioDriver) inflight() []*ioOp {
	var out []*ioOp
	for _, o := range d.objs {
		if o.closed {
			continue
		}
		for _, op := range []*ioOp{o.rd, o.wr} {
			if op != nil && !op.done && !op.abandoned {
				out = append(out, op)
			}
		}
	}
	return out
}

func (d *ioDriver) ledger() int {
	n := len(d.inflight()) + d.posts
	for _, t := range d.timers {
		if t.armed && !t.closed {
			n++
		}
	}
	return n
}

func (d *ioDriver) checkPending(after string) {
	// every action is issued from the top level (no completion callback is on the stack when it returns): the
	// dispatch depth is back to zero, whatever was parked in between
	if got := d.ioc.Dispatched; got != 0 {
		d.fail("io.Dispatched/not-zero-at-top-level", "after %s, with no callback on the stack, IO.Dispatched=%d (%s)", after, got, d.describeLedger())
	}
	if !d.c03 {
		return
	}
	if got, want := d.ioc.Pending(), int64(d.ledger()); got != want {
		sig := "io.Pending/" + after + "/count"
		d.fail(sig, "after %s Pending()=%d, operations in flight: %d (%s)", after, got, want, d.describeLedger())
	}
}

func (d *ioDriver) describeLedger() string {
	s := ""
	for _, op := range d.inflight() {
		s += fmt.Sprintf("%s.%s#%d ", op.obj.name, op.kind, op.id)
	}
	for i, t := range d.timers {
		if t.armed && !t.closed {
			s += fmt.Sprintf("timer%d ", i)
		}
	}
	if d.posts > 0 {
		s += fmt.Sprintf("posts=%d", d.posts)
	}
	return s
}

func (op *ioOp) ready() bool {
	o := op.obj
	switch op.kind {
	case "read", "readfrom", "accept":
		return kern.WouldNotBlockRead(o.rawfd)
	default:
		return kern.WouldNotBlockWrite(o.rawfd)
	}
}

func (d *ioDriver) pollOne() (int, error) {
	ready := kern.Readable(d.epfd)
	shortTimer := false
	before := d.handlers
	n, err := d.ioc.PollOne()
	ran := d.handlers - before
	d.x.Note("poll -> n=%d err=%v handlers=%d", n, err, ran)
	if d.c03 {
		if ran > 0 && !(n > 0 && err == nil) {
			d.fail("io.PollOne/handlers-ran-but-no-count", "PollOne dispatched %d handlers and returned (%d, %v)", ran, n, err)
		}
		if !ready && !shortTimer && !(n == 0 && errors.Is(err, sonicerrors.ErrTimeout)) {
			d.fail("io.PollOne/nothing-ready-but-no-timeout", "nothing was ready, PollOne returned (%d, %v)", n, err)
		}
	}
	return n, err
}

// pollAction is the "poll" action: PollOne; under C03 the other ways of running the loop once are deviations —
// RunOneFor(1 ms), and RunOne (which blocks) when poll(2) on the epoll descriptor says something is ready.
func (d *ioDriver) pollAction() {
	variant := 0
	if d.c03 {
		variant = d.x.Deviate(3, "loop run once through PollOne / RunOneFor(1ms) / RunOne")
	}
	ready := kern.Readable(d.epfd)
	if variant == 0 || (variant == 2 && !ready) {
		d.pollOne()
		return
	}
	before := d.handlers
	var err error
	name := "RunOneFor(1ms)"
	if variant == 1 {
		err = d.ioc.RunOneFor(time.Millisecond)
	} else {
		name = "RunOne"
		err = d.ioc.RunOne()
	}
	ran := d.handlers - before
	d.x.Note("%s -> err=%v handlers=%d", name, err, ran)
	if ran > 0 && err != nil {
		d.fail("io."+name+"/handlers-ran-but-error", "%s dispatched %d handlers and returned %v", name, ran, err)
	}
	if ready && err != nil {
		d.fail("io."+name+"/ready-but-error", "the epoll descriptor was readable, %s returned %v", name, err)
	}
	if !ready && ran == 0 && !errors.Is(err, sonicerrors.ErrTimeout) {
		d.fail("io."+name+"/nothing-ready-but-no-timeout", "nothing was ready and nothing ran, %s returned %v", name, err)
	}
}

// drain runs the loop until quiescent and reports operations that are ready but never complete.
func (d *ioDriver) drain() {
	h := len(d.inflight()) + 3
	for i := 0; i < h; i++ {
		d.pollOne()
	}
	// A listener on which (as far as the harness knows) no accept is in flight must not react to a new connection: an
	// accept that completed — with a connection or with an error — and was quietly armed again by the library would.
	for _, o := range d.objs {
		if o.lst != nil && !o.closed && !o.broken && o.rd == nil && len(o.peers) < 3 {
			if p, err := kern.ConnectRaw(o.addr, o.port); err == nil {
				o.peers = append(o.peers, p)
				kern.AwaitReadReady(o.rawfd, settleGuard)
				d.pollOne()
				d.pollOne()
			}
		}
	}
	for _, op := range d.inflight() {
		if op.obj.broken {
			continue
		}
		if op.ready() {
			o := op.obj
			last := o.last
			if last == "" {
				last = "no-peer-action"
			}
			d.fail(fmt.Sprintf("%s.%s/%s/never-completes", o.kind, op.kind, last),
				"%s: %s#%d is still in flight after %d polls although poll(2) says it would not block (revents for POLLIN: %#x, POLLOUT: %#x); last peer action: %s",
				o.name, op.kind, op.id, h, kern.Poll(o.rawfd, unix.POLLIN|unix.POLLRDHUP, 0), kern.Poll(o.rawfd, unix.POLLOUT, 0), last)
		}
	}
}

type ioAction struct {
	name string
	do   func()
}

func (d *ioDriver) actions() []ioAction {
	var as []ioAction
	add := func(name string, do func()) { as = append(as, ioAction{name, do}) }
	for _, o := range d.objs {
		o := o
		if !o.closed && !o.broken {
			switch {
			case o.fdo != nil && o.kind != "reg":
				if o.rd == nil && o.kind != "fifo-w" {
					add("read("+o.name+")", func() { d.start(o, "read", d.x.Deviate(3, "read variant"), 0) })
				}
				if o.wr == nil && o.kind != "fifo-r" {
					add("write("+o.name+")", func() { d.start(o, "write", []int{0, 2}[d.x.Deviate(2, "write variant")], 0) })
					// a write that stays in flight until the next poll (the state a would-block or the dispatch
					// limit produces) is a first-class action: "a read and a write in flight on the same object"
					add("write-deferred("+o.name+")", func() { d.start(o, "write", 1, 0) })
				}
				if o.rd != nil || o.wr != nil {
					add("cancel("+o.name+")", func() { d.cancel(o) })
					add("cancel-and-restart-from-the-callback("+o.name+")", func() {
						o.rearm = true
						d.cancel(o)
						o.rearm = false
					})
				}
			case o.kind == "reg":
				if o.rd == nil {
					add("read-deferred("+o.name+")", func() { d.start(o, "read", 1, 0) })
					// epoll refuses a regular file: the deferred read has completed with that error, nothing is in
					// flight, and a Cancel now has nothing to complete (a callback run again is caught in complete)
					if o.ops > 0 {
						add("cancel-with-nothing-in-flight("+o.name+")", func() {
							before := d.handlers
							o.fdo.Cancel()
							if d.handlers != before {
								d.fail("reg.cancel/callback-without-operation", "%s: Cancel with nothing in flight ran %d callbacks", o.name, d.handlers-before)
							}
						})
					}
				}
			case o.pkt != nil:
				if o.rd == nil {
					add("readfrom("+o.name+")", func() { d.start(o, "readfrom", d.x.Deviate(3, "readfrom variant"), 0) })
				}
				if o.wr == nil {
					add("writeto("+o.name+")", func() { d.start(o, "writeto", 0, 0) })
					// a datagram write that stays in flight until the next poll is a first-class action too
					add("writeto-deferred("+o.name+")", func() { d.start(o, "writeto", 1, 0) })
				}
			case o.lst != nil:
				if o.rd == nil {
					add("accept("+o.name+")", func() { d.start(o, "accept", d.x.Deviate(2, "accept variant"), 0) })
				}
			}
			add("close("+o.name+")", func() { d.close(o) })
			if d.c03 && o.fdo != nil && o.kind != "reg" && o.rd == nil && o.wr == nil && !o.broken {
				add("close-fd-underneath+read-deferred("+o.name+")", func() {
					syscall.Close(o.rawfd)
					o.broken = true
					d.start(o, "read", 1, 0)
				})
			}
			// the same with an operation of the OTHER direction already waiting in the poller: the descriptor is
			// closed underneath (the kernel drops it from the epoll set) and its number is taken by an unrelated
			// descriptor; the new operation's registration (a modification of the existing interest) fails, and
			// must leave the waiting operation counted and cancellable
			// (not for the adapter: its net.Conn would go on using the descriptor NUMBER, which now denotes the placeholder)
			if d.c03 && (o.kind == "tcp" || o.kind == "acc") && (o.rd != nil) != (o.wr != nil) && !o.broken {
				dir := "write"
				if o.wr != nil {
					dir = "read"
				}
				add("close-fd-underneath+"+dir+"-deferred("+o.name+")", func() {
					syscall.Close(o.rawfd)
					ev, err := unix.Eventfd(0, unix.EFD_NONBLOCK|unix.EFD_CLOEXEC)
					if err != nil {
						engine.HarnessError("eventfd: %v", err)
					}
					if ev != o.rawfd {
						if err := unix.Dup3(ev, o.rawfd, unix.O_CLOEXEC); err != nil {
							engine.HarnessError("dup3: %v", err)
						}
						syscall.Close(ev)
					}
					o.broken, o.phold = true, true
					o.pholdID = kern.Identity(o.rawfd)
					d.start(o, dir, 1, 0)
					if op := map[string]*ioOp{"read": o.rd, "write": o.wr}[dir]; op != nil && !op.done {
						d.fail(o.kind+"."+dir+"/registration-failure-not-reported", "%s: the descriptor is not in the epoll set any more; %s#%d was started (deferred) and its callback has not run", o.name, dir, op.id)
					}
				})
			}
		}
		if !o.closed && o.broken && o.phold && o.fdo != nil {
			if o.rd != nil || o.wr != nil {
				add("cancel("+o.name+")", func() { d.cancel(o) })
			}
			add("close("+o.name+")", func() { d.close(o) })
		}
		if o.peer >= 0 {
			switch o.kind {
			case "tcp", "acc", "adp", "fifo-r", "pkt":
				if o.sent < 12 {
					add("peerSend("+o.name+")", func() { o.peerSend(3) })
				}
			}
			// a write that cannot complete: the send buffer is full and the peer is not reading (the state in which a
			// deferred write really waits for the poller, for as long as the scenario wants)
			if (o.kind == "tcp" || o.kind == "acc") && !o.closed && !o.broken && o.wr == nil {
				if !o.full {
					add("fillSendBuffer("+o.name+")", func() {
						fastFill(o.rawfd, o.peer)
						if kern.WouldNotBlockWrite(o.rawfd) {
							d.x.Inconclusive("the send buffer did not stay full")
						}
						o.full = true
					})
				} else {
					add("peerDrains("+o.name+")", func() {
						dl := time.Now().Add(settleGuard)
						for !kern.WouldNotBlockWrite(o.rawfd) {
							drainAll(o.peer)
							if time.Now().After(dl) {
								d.x.Inconclusive("the socket did not become writable")
							}
							kern.Poll(o.rawfd, unix.POLLOUT, 2)
						}
						o.full = false
					})
				}
			}
			switch o.kind {
			case "tcp", "acc", "adp":
				add("peerHalfClose("+o.name+")", func() {
					syscall.Shutdown(o.peer, syscall.SHUT_WR)
					o.last, o.eof = "peer-half-close", true
					o.settleRead()
				})
			}
			switch o.kind {
			case "tcp", "acc", "adp", "fifo-r", "fifo-w":
				add("peerClose("+o.name+")", func() {
					syscall.Close(o.peer)
					o.peer = -1
					o.last, o.eof = "peer-close", true
					if o.kind == "fifo-r" {
						o.last = "peer-hangup"
					}
					if o.kind != "fifo-w" {
						o.settleRead()
					}
				})
			}
			switch o.kind {
			case "tcp", "acc":
				add("peerRST("+o.name+")", func() {
					kern.Reset(o.peer)
					o.peer = -1
					o.last, o.eof = "peer-reset", true
					o.settleRead()
				})
			}
		}
		if o.kind == "lst" && !o.closed && len(o.peers) < 2 {
			add("peerConnect("+o.name+")", func() {
				p, err := kern.ConnectRaw(o.addr, o.port)
				if err != nil {
					d.x.Inconclusive("connect: " + err.Error())
				}
				o.peers = append(o.peers, p)
				o.last = "peer-connect"
				o.settleRead()
			})
		}
	}
	hasReg := false
	for _, o := range d.objs {
		if o.kind == "reg" {
			hasReg = true
		}
	}
	// (C01 has the regular file as a scenario of its own, see c01DFS: a third object in every pair would multiply the search)
	if d.c03 && !hasReg && len(d.objs) < 3 {
		add("open-regular-file", func() { d.newObj("reg", "R") })
	}
	add("poll", func() { d.pollAction() })
	if d.c03 {
		d.c03Actions(add)
	}
	return as
}

// run executes the action sequence of one execution.
func (d *ioDriver) run(depth int) {
	var names []string
	for step := 0; step < depth; step++ {
		as := d.actions()
		// choice 0 ends the sequence early (shorter histories are explored too)
		k := d.x.Pick(len(as)+1, "action")
		if k == 0 {
			break
		}
		a := as[k-1]
		names = append(names, a.name)
		d.x.Note("action %s", a.name)
		a.do()
		d.checkPending(actionClass(a.name))
	}
	if len(names) > 0 {
		d.x.Nontrivial()
	}
	if d.c03 {
		d.c03Finish()
	}
	d.drain()
	d.checkPending("drain")
	d.x.Outcome(d.outcome())
}

func actionClass(name string) string {
	for i := 0; i < len(name); i++ {
		if name[i] == '(' {
			return name[:i]
		}
	}
	return name
}

func (d *ioDriver) outcome() string {
	s := ""
	for _, o := range d.objs {
		s += fmt.Sprintf("%s:got%d,wrote%d,closed=%v,infl=%v;", o.kind, o.got, o.wrote, o.closed, o.rd != nil || o.wr != nil)
	}
	return s
}
