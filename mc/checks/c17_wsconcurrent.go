package checks

// C17 — WebSocket reads and writes in flight together each complete exactly once.
//
// Engine E1 over the real stack: websocket.Stream attached (VerifAttach) to a real AsyncAdapter on a real
// socketpair net.Conn; the raw peer end is written with wsref frames and its input parsed by wsref.
// Actions: start AsyncNextFrame / AsyncNextMessage (at most one read in flight), AsyncWrite(m_k) (up to three,
// also while an earlier one is in flight), AsyncClose (also while a write is in flight), peer data / ping /
// close, poll. Handler behaviour of a read callback is a deviation: start the next read, start a write, both.
// Oracle (no timing, no model of internal ordering): every callback at most once at any time; after the loop
// has been run to quiescence every AsyncWrite/AsyncClose callback ran exactly once; the frames delivered to
// read callbacks (and to the control callback) are a prefix of what the peer sent, in order, byte-identical;
// a read that is still without a callback is only acceptable if every frame the peer sent has been consumed;
// the peer's input parses as whole masked frames: application frames in submission order, exactly once; one
// pong per ping that was consumed, same payload, in order; at most one close; Pending() equals the number of
// reads legitimately waiting.

import (
	"fmt"
	"net"
	"os"
	"syscall"
	"time"

	"github.com/talostrading/sonic"
	"github.com/talostrading/sonic/codec/websocket"
	"verifmc/engine"
	"verifmc/kern"
	"verifmc/wsref"
)

type wsCall struct {
	kind  string
	calls int
	err   error
}

type c17Env struct {
	x          *engine.X
	ioc        *sonic.IO
	epfd       int
	ws         *websocket.Stream
	peer       int
	sent       []wsref.Frame // inbound frames the peer sent
	consumed   []wsref.Frame // frames handed to read callbacks / the control callback, in order
	reads      []*wsCall
	writes     []*wsCall
	wpay       [][]byte
	readInfl   *wsCall
	closeC     *wsCall
	out        []byte
	buf        []byte
	pings      int
	peerClosed bool
	eos        bool // a read reported an error (end of stream or failure)
	hdepth     int
}

func (e *c17Env) drainPeer() {
	b := make([]byte, 1<<16)
	for {
		n, err := syscall.Read(e.peer, b)
		if err != nil || n <= 0 {
			return
		}
		e.out = append(e.out, b[:n]...)
	}
}

func (e *c17Env) startRead(msg bool) {
	c := &wsCall{kind: "AsyncNextFrame"}
	if msg {
		c.kind = "AsyncNextMessage"
	}
	e.reads = append(e.reads, c)
	e.readInfl = c
	e.x.Note("start %s#%d", c.kind, len(e.reads))
	done := func(err error) {
		c.calls++
		c.err = err
		if c.calls > 1 {
			e.x.Fail("ws/read-callback-twice", "%s#%d: callback ran %d times", c.kind, len(e.reads), c.calls)
		}
		if e.readInfl == c {
			e.readInfl = nil
		}
		if err != nil {
			e.eos = true
		}
		e.x.Note("  %s cb err=%v", c.kind, err)
		e.behave()
	}
	if msg {
		e.ws.AsyncNextMessage(e.buf, func(err error, n int, mt websocket.MessageType) {
			if err == nil {
				e.consumed = append(e.consumed, wsref.Frame{Fin: true, Op: byte(mt), Payload: append([]byte{}, e.buf[:n]...)})
			}
			done(err)
		})
	} else {
		e.ws.AsyncNextFrame(func(err error, f websocket.Frame) {
			if err == nil && f != nil {
				e.consumed = append(e.consumed, wsref.Frame{Fin: f.IsFIN(), Op: byte(f.Opcode()), Payload: append([]byte{}, f.Payload()...)})
			}
			done(err)
		})
	}
}

func (e *c17Env) writeInFlight() bool {
	for _, w := range e.writes {
		if w.calls == 0 {
			return true
		}
	}
	return e.closeC != nil && e.closeC.calls == 0
}

func (e *c17Env) startWrite() {
	c := &wsCall{kind: "AsyncWrite"}
	e.writes = append(e.writes, c)
	p := payloadBytes(len(e.writes)+40, 5+len(e.writes))
	e.wpay = append(e.wpay, p)
	e.x.Note("start AsyncWrite#%d", len(e.writes))
	e.ws.AsyncWrite(p, websocket.TypeBinary, func(err error) {
		c.calls++
		c.err = err
		if c.calls > 1 {
			e.x.Fail("ws/write-callback-twice", "AsyncWrite: callback ran %d times", c.calls)
		}
		e.x.Note("  AsyncWrite cb err=%v", err)
	})
}

func (e *c17Env) behave() {
	if e.hdepth > 0 || e.eos {
		return
	}
	e.hdepth++
	defer func() { e.hdepth-- }()
	opts := []string{"nothing"}
	canRead := e.readInfl == nil && len(e.reads) < 4
	canWrite := len(e.writes) < 3
	if canRead {
		opts = append(opts, "read")
	}
	if canWrite {
		opts = append(opts, "write")
	}
	if canRead && canWrite {
		opts = append(opts, "read+write", "write+read")
	}
	k := e.x.Deviate(len(opts), "read handler starts")
	switch opts[k] {
	case "read":
		e.startRead(false)
	case "write":
		e.startWrite()
	case "read+write":
		e.startRead(false)
		e.startWrite()
	case "write+read":
		e.startWrite()
		e.startRead(false)
	}
}

func (e *c17Env) peerSend(f wsref.Frame) {
	if _, err := syscall.Write(e.peer, f.Encode()); err != nil {
		e.x.Inconclusive("peer write: " + err.Error())
	}
	e.sent = append(e.sent, f)
}

func c17Body(depth int) func(x *engine.X) {
	return func(x *engine.X) {
		e := &c17Env{x: x, buf: make([]byte, 256)}
		e.epfd = lowestFreeFd()
		ioc, err := sonic.NewIO()
		if err != nil {
			engine.HarnessError("NewIO: %v", err)
		}
		e.ioc = ioc
		a, b, _ := kern.SocketPair()
		f := os.NewFile(uintptr(a), "sp")
		c, err := net.FileConn(f)
		f.Close()
		if err != nil {
			engine.HarnessError("FileConn: %v", err)
		}
		e.peer = b
		var ad *sonic.AsyncAdapter
		sonic.NewAsyncAdapter(ioc, c.(syscall.Conn), c, func(err error, a *sonic.AsyncAdapter) { ad = a })
		ws, _ := websocket.NewWebsocketStream(ioc, nil, websocket.RoleClient)
		if err := ws.VerifAttach(ad); err != nil {
			engine.HarnessError("VerifAttach: %v", err)
		}
		e.ws = ws
		x.Defer(func() { ad.Close(); c.Close(); syscall.Close(b); ioc.Close() })
		ws.SetControlCallback(func(mt websocket.MessageType, p []byte) {
			e.consumed = append(e.consumed, wsref.Frame{Fin: true, Op: byte(mt), Payload: append([]byte{}, p...)})
		})
		var names []string
		for step := 0; step < depth; step++ {
			type act struct {
				name string
				do   func()
			}
			var as []act
			if e.readInfl == nil && len(e.reads) < 4 && !e.eos {
				as = append(as, act{"AsyncNextFrame", func() { e.startRead(false) }})
				as = append(as, act{"AsyncNextMessage", func() { e.startRead(true) }})
			}
			// Further writes may be started while one is still in flight: the oracle only demands that every
			// callback runs exactly once (with or without an error) and that what was reported as written is on
			// the wire once and in order, so an implementation that refuses overlapping writes passes too.
			if len(e.writes) < 3 {
				as = append(as, act{"AsyncWrite", func() { e.startWrite() }})
			}
			if e.closeC == nil {
				as = append(as, act{"AsyncClose", func() {
					cc := &wsCall{kind: "AsyncClose"}
					e.closeC = cc
					e.ws.AsyncClose(websocket.CloseNormal, "bye", func(err error) {
						cc.calls++
						cc.err = err
						if cc.calls > 1 {
							x.Fail("ws/close-callback-twice", "AsyncClose: callback ran %d times", cc.calls)
						}
					})
				}})
			}
			if !e.peerClosed {
				as = append(as, act{"peer-data", func() {
					e.peerSend(wsref.Frame{Fin: true, Op: wsref.OpBinary, Payload: payloadBytes(len(e.sent)+1, 3)})
				}})
				if e.pings < 2 {
					as = append(as, act{"peer-ping", func() {
						e.pings++
						e.peerSend(wsref.Frame{Fin: true, Op: wsref.OpPing, Payload: payloadBytes(len(e.sent)+70, 2)})
					}})
				}
				as = append(as, act{"peer-close", func() {
					e.peerClosed = true
					e.peerSend(wsref.Frame{Fin: true, Op: wsref.OpClose, Payload: wsref.ClosePayload(1000, "")})
				}})
			}
			as = append(as, act{"poll", func() { ioc.PollOne(); e.drainPeer() }})
			k := x.Pick(len(as)+1, "action")
			if k == 0 {
				break
			}
			names = append(names, as[k-1].name)
			x.Note("action %s", as[k-1].name)
			as[k-1].do()
		}
		if len(names) > 0 {
			x.Nontrivial()
		}
		// run the loop to quiescence: the peer's bytes are in the socket; nothing else will happen
		for i := 0; i < 40; i++ {
			e.drainPeer()
			ready := kern.Readable(e.epfd)
			n, _ := ioc.PollOne()
			if !ready && n == 0 {
				break
			}
		}
		e.drainPeer()
		x.Note("sent=%v consumed=%v", e.sent, e.consumed)
		// writes complete exactly once
		for i, w := range e.writes {
			if w.calls != 1 {
				x.Fail("ws/write-callback-lost", "AsyncWrite#%d: callback ran %d times after the loop went quiescent (actions %v)", i+1, w.calls, names)
			}
		}
		if e.closeC != nil && e.closeC.calls != 1 {
			x.Fail("ws/close-callback-lost", "AsyncClose: callback ran %d times after the loop went quiescent (actions %v)", e.closeC.calls, names)
		}
		// what was consumed is a prefix of what was sent
		if len(e.consumed) > len(e.sent) {
			x.Fail("ws/frames-invented", "callbacks received %d frames, the peer sent %d", len(e.consumed), len(e.sent))
		}
		for i, cf := range e.consumed {
			s := e.sent[i]
			if cf.Op != s.Op || (s.Op != wsref.OpClose && string(cf.Payload) != string(s.Payload)) {
				x.Fail("ws/read-result-not-own", "the %d-th frame handed to a callback is %v, the peer's %d-th frame was %v", i, cf, i, s)
			}
		}
		waiting := 0
		if e.readInfl != nil && e.readInfl.calls == 0 {
			waiting = 1
			if len(e.consumed) < len(e.sent) {
				x.Fail("ws/read-callback-lost", "%s is still without a callback after the loop went quiescent, although the peer's frame %d (%v) was never consumed (actions %v)", e.readInfl.kind, len(e.consumed), e.sent[len(e.consumed)], names)
			}
		}
		// outbound side
		frames, rest, _ := wsref.ParseAll(e.out, 1<<20)
		if len(rest) != 0 {
			x.Fail("ws/wire-interleaved-or-truncated", "the peer received %d bytes that are not whole frames after %d frames (actions %v)", len(rest), len(frames), names)
		}
		var app, pongs []wsref.Frame
		closes := 0
		for _, p := range frames {
			if !p.Masked {
				x.Fail("ws/wire-interleaved-or-truncated", "the peer received an unmasked frame %v: bytes of different frames were mixed (actions %v)", p.Frame, names)
			}
			switch p.Op {
			case wsref.OpBinary, wsref.OpText:
				app = append(app, p.Frame)
			case wsref.OpPong:
				pongs = append(pongs, p.Frame)
			case wsref.OpClose:
				closes++
			}
		}
		var wantApp []wsref.Frame
		for i, w := range e.writes {
			if w.err == nil && w.calls == 1 {
				wantApp = append(wantApp, wsref.Frame{Fin: true, Op: wsref.OpBinary, Payload: e.wpay[i]})
			}
		}
		if i, ok := sameFrames(app, wantApp); !ok {
			x.Fail("ws/app-frames-on-wire", "application frames at the peer %v, successfully written %v (difference at %d; actions %v)", app, wantApp, i, names)
		}
		var wantPongs []wsref.Frame
		for _, cf := range e.consumed {
			if cf.Op == wsref.OpPing {
				wantPongs = append(wantPongs, wsref.Frame{Fin: true, Op: wsref.OpPong, Payload: cf.Payload})
			}
		}
		// a pong queued by the last read may still be waiting for the next flush: a prefix is enough
		if len(pongs) > len(wantPongs) {
			x.Fail("ws/pong-duplicated", "%d pongs at the peer for %d pings consumed (actions %v)", len(pongs), len(wantPongs), names)
		}
		for i := range pongs {
			if string(pongs[i].Payload) != string(wantPongs[i].Payload) {
				x.Fail("ws/pong-payload", "pong %d carries %x, ping carried %x", i, pongs[i].Payload, wantPongs[i].Payload)
			}
		}
		if closes > 1 {
			x.Fail("ws/second-close", "%d close frames at the peer", closes)
		}
		if got := ioc.Pending(); got != int64(waiting) {
			x.Fail("ws/pending-after-quiescence", "IO.Pending()=%d after quiescence, %d reads are legitimately waiting (actions %v)", got, waiting, names)
		}
		x.Outcome(fmt.Sprintf("r%d/w%d/sent%d/consumed%d/wait%d", len(e.reads), len(e.writes), len(e.sent), len(e.consumed), waiting))
	}
}

func c17DFS(tier string) *engine.DFS {
	depth, dev := 6, 1
	if tier == "thorough" {
		depth, dev = 8, 2
	}
	return &engine.DFS{Name: "wsrw@" + tier, Body: c17Body(depth), Procs: 16, WorkerProcs: 1, GCEvery: 50, ShardDepth: 3, MaxDeviations: dev, MaxPoints: 100, HangTimeout: 30 * time.Second}
}

func C17(tier string) *engine.Report {
	rep := engine.NewReport("C17", tier, "exploration")
	var tot engine.DFSTotals
	d := c17DFS(tier)
	d.Budget = 4 * time.Minute
	if tier == "thorough" {
		d.Budget = 25 * time.Minute
	}
	tot.Add(d.Run(), rep)
	tot.Fill(rep, "all action sequences up to the depth bound over a real Stream + AsyncAdapter + socketpair: start AsyncNextFrame/AsyncNextMessage, AsyncWrite, AsyncClose, peer data/ping/close, poll; read-handler behaviours (start a read, a write, both in either order) are deviations; "+
		"then the loop is run to quiescence (epoll fd not readable and PollOne idle) and callbacks, consumed frames, the peer's byte stream and Pending() are judged; non-trivial = at least one action", d.MaxDeviations)
	rep.Coverage["depth"] = map[string]int{"quick": 6, "thorough": 8}[tier]
	return rep
}

func C17Replay(v engine.Violation, log func(string)) *engine.Violation {
	return c17DFS(v.Config[5:]).ReplayChoices(v.Choices)
}
