package checks

// C16, family "sizes": "application messages of every size up to the maximum". The operation-sequence family uses 8
// size classes; here EVERY payload size from 0 to 8300 bytes, and every size within 24 bytes of 16 KiB, 32 KiB, 64 KiB
// and 128 KiB, is written once — blocking and asynchronously, on a fresh stream and after a 20000-byte or a 1-byte
// message (the write buffer has grown, or a small frame sits in the pool) — and the complete outbound stream is parsed:
// exactly the submitted frames, masked, minimally encoded, byte-identical payloads, nothing left over. Sizes at which
// a frame's header + payload meets the capacity of a buffer are in there whatever that capacity is.

import (
	"fmt"
	"time"

	"github.com/talostrading/sonic/codec/websocket"
	"verifmc/engine"
	"verifmc/vstream"
	"verifmc/wsref"
)

const c16SweepMax = 140000

var c16SweepSizes = func() []int {
	var s []int
	for n := 0; n <= 8300; n++ {
		s = append(s, n)
	}
	for _, c := range []int{16384, 32768, 65536, 131072} {
		for n := c - 24; n <= c+24; n++ {
			s = append(s, n)
		}
	}
	return s
}()

func c16SizesBody(x *engine.X) {
	async := x.Pick(2, "Write | AsyncWrite") == 1
	hist := x.Pick(3, "history: fresh stream | after a 20000-byte message | after a 1-byte message")
	n := c16SweepSizes[x.Pick(len(c16SweepSizes), "payload size")]
	vs := vstream.New()
	ws := newWS(x, vs, c16SweepMax)
	var want []wsref.Frame
	send := func(seed, n int) {
		p := payloadBytes(seed, n)
		want = append(want, wsref.Frame{Fin: true, Op: wsref.OpBinary, Payload: p})
		if async {
			calls := 0
			var cerr error
			ws.AsyncWrite(p, websocket.TypeBinary, func(e error) { calls++; cerr = e })
			if calls != 1 || cerr != nil {
				x.Fail("wswrite/sizes/callback", "AsyncWrite(%d bytes) over an inline transport: callback ran %d times, err=%v", n, calls, cerr)
			}
			return
		}
		if err := ws.Write(p, websocket.TypeBinary); err != nil {
			x.Fail("wswrite/refused-while-active", "Write(%d bytes) on an active stream: %v", n, err)
		}
	}
	x.Guard("wswrite/panic", func() {
		switch hist {
		case 1:
			send(7, 20000)
		case 2:
			send(7, 1)
		}
		send(9, n)
	})
	x.Note("async=%v history=%d size=%d", async, hist, n)
	x.Nontrivial()
	frames, rest, st := wsref.ParseAll(vs.Out, 1<<40)
	if len(rest) != 0 || st != wsref.OK || len(frames) != len(want) {
		var fs []wsref.Frame
		for _, p := range frames {
			fs = append(fs, p.Frame)
		}
		x.Fail("wswrite/malformed-outbound-stream", "a %d-byte message (history %d, async %v): the outbound stream parses as %v plus %d bytes that are not a whole frame; submitted %v", n, hist, async, fs, len(rest), want)
	}
	for i, p := range frames {
		if !p.Masked || !p.Minimal || p.Rsv != 0 {
			x.Fail("wswrite/malformed-outbound-stream", "frame %d of a %d-byte message: masked=%v minimal length encoding=%v rsv=%03b", i, n, p.Masked, p.Minimal, p.Rsv)
		}
		if p.Op != want[i].Op || !p.Fin || string(p.Payload) != string(want[i].Payload) {
			x.Fail("wswrite/data-frames", "frame %d on the wire is %v, submitted %v (size %d, history %d, async %v)", i, p.Frame, want[i], n, hist, async)
		}
	}
	x.Outcome(fmt.Sprintf("sizes/%v/%d", async, hist))
}

func c16SizesDFS(tier string) *engine.DFS {
	return &engine.DFS{Name: "sizes@" + tier, Body: c16SizesBody, Procs: 16, WorkerProcs: 1, GCEvery: 50, ShardDepth: 3, MaxDeviations: 0, MaxPoints: 20, HangTimeout: 60 * time.Second}
}
