package checks

// C08, close-code table: "a peer Close is answered by a Close echoing its status code" for every status code there
// is. All 65536 two-byte codes x the 4 read APIs, one session each on the scripted transport: the peer's Close(code)
// is read, the reply flushed, and the outbound wire must be exactly one masked Close carrying the same code when RFC
// 6455 7.4 allows the code on the wire (1000-1003, 1007-1013 as registered in the RFC and its registry, 3000-4999),
// and Close(1002) otherwise. (The BFS drives six representative Close payloads from every state; this table drives
// every code from the open state.)

import (
	"fmt"
	"time"

	"verifmc/engine"
	"verifmc/vstream"
	"verifmc/wsref"
)

func c08CloseCodeBody(x *engine.X) {
	api := x.Pick(4, "read API")
	code := uint16(x.Pick(1<<16, "status code of the peer's Close"))
	vs := vstream.New()
	vs.Feed(wsref.Frame{Fin: true, Op: wsref.OpClose, Payload: wsref.ClosePayload(code, "")}.Encode())
	ws := newWS(x, vs, 1<<12)
	x.Guard("wsclose/codes/panic", func() {
		readAll(x, ws, vs, api, false, 3, 1<<12+16)
		ws.Flush()
	})
	want := uint16(1002)
	if wsref.ValidCloseCode(code) {
		want = code
	}
	x.Note("peer Close(%d) read with %s; expected reply Close(%d)", code, apiNames[api], want)
	out, rest, _ := wsref.ParseAll(vs.Out, 1<<20)
	if len(out) != 1 || len(rest) != 0 || out[0].Op != wsref.OpClose || !out[0].Masked {
		var fs []wsref.Frame
		for _, p := range out {
			fs = append(fs, p.Frame)
		}
		x.Fail("wsclose/codes/reply-shape", "peer Close(%d) read with %s: the client wrote %v (+%d stray bytes), expected exactly one masked Close(%d)", code, apiNames[api], fs, len(rest), want)
	}
	p := out[0].Payload
	if len(p) < 2 || uint16(p[0])<<8|uint16(p[1]) != want {
		x.Fail("wsclose/codes/not-echoed", "peer Close(%d) read with %s: the client answered with Close payload %x, expected status %d", code, apiNames[api], p, want)
	}
	x.Nontrivial()
	x.Outcome(fmt.Sprintf("%s/%v", apiNames[api], want == code))
}

func c08CloseCodeDFS(tier string) *engine.DFS {
	return &engine.DFS{Name: "close-codes@" + tier, Body: c08CloseCodeBody, Procs: 16, WorkerProcs: 1, ShardDepth: 2, MaxDeviations: 0, MaxPoints: 20, HangTimeout: 60 * time.Second}
}
