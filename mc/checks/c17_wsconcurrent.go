package checks

// C17 — WebSocket reads and writes in flight together each complete exactly once.
//
// Engine E1 over the real stack: websocket.Stream attached (VerifAttach) to a real AsyncAdapter on a real
// socketpair net.Conn; the raw peer end is written with wsref frames and its input parsed by wsref.
// Actions: start AsyncNextFrame / AsyncNextMessage (at most one read in flight), AsyncWrite(m_k) (up to three,
// also while an earlier one is in flight), AsyncClose (also while a write is in flight), peer data / ping /
// close, poll. Handler behaviour of a read callback is a deviation: start the next read, start a write, both.
// Oracle (no timing, no model of internal ordering): every callback at most once at any time; after the loop
// has been run to quiescence every AsyncWrite/AsyncClose callback ran exactly once; the frames delivered to
// read callbacks (and to the control callback) are a prefix of what the peer sent, in order, byte-identical;
// a read that is still without a callback is only acceptable if every frame the peer sent has been consumed;
// the peer's input parses as whole masked frames: application frames in submission order, exactly once; one
// pong per ping that was consumed, same payload, in order; at most one close; Pending() equals the number of
// reads legitimately waiting.

import (
	"fmt"
	"io"
	"net"
	"os"
	"runtime"
	"strings"
	"syscall"
	"time"

	"github.com/talostrading/sonic"
	"github.com/talostrading/sonic/codec/websocket"
	"github.com/talostrading/sonic/sonicerrors"
	"verifmc/engine"
	"verifmc/kern"
	"verifmc/wsref"
)

type wsCall struct {
	kind  string
	calls int
	err   error
}

type c17Env struct {
	x          *engine.X
	ioc        *sonic.IO
	epfd       int
	ws         *websocket.Stream
	peer       int
	sent       []wsref.Frame // inbound frames the peer sent
	consumed   []wsref.Frame // frames handed to read callbacks / the control callback, in order
	reads      []*wsCall
	writes     []*wsCall
	wpay       [][]byte
	readInfl   *wsCall
	closeC     *wsCall
	closeC2    *wsCall // a second AsyncClose
	out        []byte
	buf        []byte
	pings      int
	peerClosed bool
	eos        bool // a read reported an error (end of stream or failure)
	hdepth     int
	bigs       int
	flushes    []*wsCall
	rawT       bool
	bigIn      bool // the peer has sent its one oversize message
	objfd      int  // the descriptor behind the adapter
	cleanRead  bool // the read in flight was started with nothing queued or in flight on the write side
}

// c17Raw is an io.ReadWriter on the raw non-blocking descriptor: Write reports what the kernel took (possibly
// less than asked, possibly nothing) without an error, which is what the adapter's partial-write path is for.
type c17Raw struct{ fd int }

func (r *c17Raw) Read(p []byte) (int, error) {
	n, err := syscall.Read(r.fd, p)
	switch {
	case err == syscall.EAGAIN:
		return 0, sonicerrors.ErrWouldBlock
	case err != nil:
		return 0, err
	case n == 0:
		return 0, io.EOF
	}
	return n, nil
}

func (r *c17Raw) Write(p []byte) (int, error) {
	n, err := syscall.Write(r.fd, p)
	switch {
	case err == syscall.EAGAIN:
		return 0, nil
	case err != nil:
		return 0, err
	}
	return n, nil
}

func (e *c17Env) drainPeer() {
	b := make([]byte, 1<<16)
	for {
		n, err := syscall.Read(e.peer, b)
		if err != nil || n <= 0 {
			return
		}
		e.out = append(e.out, b[:n]...)
	}
}

func (e *c17Env) startRead(msg bool) {
	c := &wsCall{kind: "AsyncNextFrame"}
	if msg {
		c.kind = "AsyncNextMessage"
	}
	e.reads = append(e.reads, c)
	e.readInfl = c
	e.cleanRead = !e.writeInFlight() && e.ws.Pending() == 0 && len(e.flushes) == 0
	e.x.Note("start %s#%d", c.kind, len(e.reads))
	done := func(err error) {
		c.calls++
		c.err = err
		if c.calls > 1 {
			e.x.Fail("ws/read-callback-twice", "%s#%d: callback ran %d times", c.kind, len(e.reads), c.calls)
		}
		if e.readInfl == c {
			e.readInfl = nil
		}
		if err != nil {
			e.eos = true
		}
		e.x.Note("  %s cb err=%v", c.kind, err)
		e.behave()
	}
	if msg {
		e.ws.AsyncNextMessage(e.buf, func(err error, n int, mt websocket.MessageType) {
			if err == nil {
				e.consumed = append(e.consumed, wsref.Frame{Fin: true, Op: byte(mt), Payload: append([]byte{}, e.buf[:n]...)})
			}
			done(err)
		})
	} else {
		e.ws.AsyncNextFrame(func(err error, f websocket.Frame) {
			if err == nil && f != nil {
				e.consumed = append(e.consumed, wsref.Frame{Fin: f.IsFIN(), Op: byte(f.Opcode()), Payload: append([]byte{}, f.Payload()...)})
			}
			done(err)
		})
	}
}

func (e *c17Env) writeInFlight() bool {
	for _, w := range e.writes {
		if w.calls == 0 {
			return true
		}
	}
	return e.closeC != nil && e.closeC.calls == 0
}

func (e *c17Env) startWrite() { e.startWriteKind(0) }

// startWriteKind: 0 AsyncWrite of a small message; 1 AsyncWriteFrame of a caller-built frame; 2 AsyncWrite of a
// message far larger than the (minimal) send buffer, so that the adapter's AsyncWriteAll crosses would-block
// several times while other frames queue up behind it.
func (e *c17Env) startWriteKind(kind int) {
	c := &wsCall{kind: []string{"AsyncWrite", "AsyncWriteFrame", "AsyncWrite(big)"}[kind]}
	e.writes = append(e.writes, c)
	n := 5 + len(e.writes)
	if kind == 2 {
		n = 100000
		if e.rawT {
			n = 48000 // a dozen or more pieces through the minimal send buffer
		}
		e.bigs++
	}
	p := payloadBytes(len(e.writes)+40, n)
	e.wpay = append(e.wpay, p)
	e.x.Note("start %s#%d", c.kind, len(e.writes))
	cb := func(err error) {
		c.calls++
		c.err = err
		if c.calls > 1 {
			e.x.Fail("ws/write-callback-twice", "%s: callback ran %d times", c.kind, c.calls)
		}
		e.x.Note("  %s cb err=%v", c.kind, err)
	}
	if kind == 1 {
		f := e.ws.AcquireFrame()
		f.SetFIN().SetBinary().SetPayload(p)
		e.ws.AsyncWriteFrame(f, cb)
		return
	}
	e.ws.AsyncWrite(p, websocket.TypeBinary, cb)
}

func (e *c17Env) behave() {
	if e.hdepth > 0 || e.eos {
		return
	}
	e.hdepth++
	defer func() { e.hdepth-- }()
	opts := []string{"nothing"}
	canRead := e.readInfl == nil && len(e.reads) < 4
	canWrite := len(e.writes) < 3
	if canRead {
		opts = append(opts, "read")
	}
	if canWrite {
		opts = append(opts, "write")
	}
	if canRead && canWrite {
		opts = append(opts, "read+write", "write+read")
	}
	k := e.x.Deviate(len(opts), "read handler starts")
	switch opts[k] {
	case "read":
		e.startRead(false)
	case "write":
		e.startWrite()
	case "read+write":
		e.startRead(false)
		e.startWrite()
	case "write+read":
		e.startWrite()
		e.startRead(false)
	}
}

func (e *c17Env) peerSend(f wsref.Frame) {
	if _, err := syscall.Write(e.peer, f.Encode()); err != nil {
		e.x.Inconclusive("peer write: " + err.Error())
	}
	e.sent = append(e.sent, f)
}

func c17Body(depth int) func(x *engine.X) {
	return func(x *engine.X) {
		e := &c17Env{x: x, buf: make([]byte, 256)}
		e.epfd = lowestFreeFd()
		ioc, err := sonic.NewIO()
		if err != nil {
			engine.HarnessError("NewIO: %v", err)
		}
		e.ioc = ioc
		a, b, _ := kern.SocketPair()
		f := os.NewFile(uintptr(a), "sp")
		c, err := net.FileConn(f)
		f.Close()
		if err != nil {
			engine.HarnessError("FileConn: %v", err)
		}
		e.peer = b
		// transport behind the adapter: the net.Conn itself (its Write never returns short), or the raw descriptor
		// with a minimal send buffer, whose Write takes what fits — a large message is then written in many pieces,
		// with a would-block between any two
		var rw io.ReadWriter = c
		if x.Pick(2, "transport: net.Conn / raw descriptor with short writes") == 1 {
			e.rawT = true
			raw := &c17Raw{fd: -1}
			sc, _ := c.(syscall.Conn).SyscallConn()
			sc.Control(func(fd uintptr) {
				raw.fd = int(fd)
				syscall.SetsockoptInt(int(fd), syscall.SOL_SOCKET, syscall.SO_SNDBUF, 1)
			})
			rw = raw
			e.objfd = raw.fd
		}
		var ad *sonic.AsyncAdapter
		sonic.NewAsyncAdapter(ioc, c.(syscall.Conn), rw, func(err error, a *sonic.AsyncAdapter) { ad = a })
		ws, _ := websocket.NewWebsocketStream(ioc, nil, websocket.RoleClient)
		if err := ws.VerifAttach(ad); err != nil {
			engine.HarnessError("VerifAttach: %v", err)
		}
		e.ws = ws
		x.Defer(func() { ad.Close(); c.Close(); syscall.Close(b); ioc.Close() })
		ws.SetControlCallback(func(mt websocket.MessageType, p []byte) {
			e.consumed = append(e.consumed, wsref.Frame{Fin: true, Op: byte(mt), Payload: append([]byte{}, p...)})
		})
		var names []string
		for step := 0; step < depth; step++ {
			type act struct {
				name string
				do   func()
			}
			var as []act
			if e.readInfl == nil && len(e.reads) < 4 && !e.eos {
				as = append(as, act{"AsyncNextFrame", func() { e.startRead(false) }})
				as = append(as, act{"AsyncNextMessage", func() { e.startRead(true) }})
			}
			// Further writes may be started while one is still in flight: the oracle only demands that every
			// callback runs exactly once (with or without an error) and that what was reported as written is on
			// the wire once and in order, so an implementation that refuses overlapping writes passes too.
			if len(e.writes) < 3 {
				as = append(as, act{"AsyncWrite", func() { e.startWrite() }})
				as = append(as, act{"AsyncWriteFrame", func() { e.startWriteKind(1) }})
				if e.bigs == 0 {
					as = append(as, act{"AsyncWrite(large)", func() { e.startWriteKind(2) }})
				}
			}
			if len(e.flushes) < 1 {
				as = append(as, act{"AsyncFlush", func() {
					fc := &wsCall{kind: "AsyncFlush"}
					e.flushes = append(e.flushes, fc)
					earlier := append([]*wsCall{}, e.writes...) // application writes submitted before this flush
					e.ws.AsyncFlush(func(err error) {
						fc.calls++
						fc.err = err
						// a flush reports that what was queued before it has been written: it cannot complete (successfully)
						// ahead of an application write that was submitted earlier
						if err == nil {
							for i, w := range earlier {
								if w.calls == 0 {
									x.Fail("ws/flush-completed-before-earlier-write", "AsyncFlush completed while %s#%d, submitted before it, has not completed yet", w.kind, i+1)
								}
							}
						}
						if fc.calls > 1 {
							x.Fail("ws/flush-callback-twice", "AsyncFlush: callback ran %d times", fc.calls)
						}
					})
				}})
			}
			if e.closeC == nil {
				as = append(as, act{"AsyncClose", func() {
					cc := &wsCall{kind: "AsyncClose"}
					e.closeC = cc
					e.ws.AsyncClose(websocket.CloseNormal, "bye", func(err error) {
						cc.calls++
						cc.err = err
						if cc.calls > 1 {
							x.Fail("ws/close-callback-twice", "AsyncClose: callback ran %d times", cc.calls)
						}
					})
				}})
			}
			// a second AsyncClose, in whatever state the first one and the peer have left the stream (closing, acknowledged,
			// terminated): whatever it reports, its callback runs exactly once too
			if e.closeC != nil && e.closeC2 == nil {
				as = append(as, act{"AsyncClose(again)", func() {
					cc := &wsCall{kind: "AsyncClose"}
					e.closeC2 = cc
					e.ws.AsyncClose(websocket.CloseNormal, "bye", func(err error) {
						cc.calls++
						cc.err = err
						if cc.calls > 1 {
							x.Fail("ws/close-callback-twice", "second AsyncClose: callback ran %d times", cc.calls)
						}
					})
				}})
			}
			if !e.peerClosed {
				as = append(as, act{"peer-data", func() {
					e.peerSend(wsref.Frame{Fin: true, Op: wsref.OpBinary, Payload: payloadBytes(len(e.sent)+1, 3)})
				}})
				if e.pings < 2 {
					as = append(as, act{"peer-ping", func() {
						e.pings++
						e.peerSend(wsref.Frame{Fin: true, Op: wsref.OpPing, Payload: payloadBytes(len(e.sent)+70, 2)})
					}})
				}
				if !e.bigIn {
					// a message larger than the buffer handed to AsyncNextMessage: the message API answers with an error and
					// an automatic Close(1001) — one more thing the read path writes while an application write may be in flight
					as = append(as, act{"peer-data(larger than the read buffer)", func() {
						e.bigIn = true
						// (300 bytes; or 4094: header + payload just beyond the 4096 bytes the receive buffer starts with)
						sz := []int{len(e.buf) + 44, 4094}[x.Pick(2, "size of the large message")]
						e.peerSend(wsref.Frame{Fin: true, Op: wsref.OpBinary, Payload: payloadBytes(len(e.sent)+9, sz)})
					}})
				}
				as = append(as, act{"peer-close", func() {
					e.peerClosed = true
					e.peerSend(wsref.Frame{Fin: true, Op: wsref.OpClose, Payload: wsref.ClosePayload(1000, "")})
				}})
			}
			as = append(as, act{"poll", func() { ioc.PollOne(); e.drainPeer() }})
			k := x.Pick(len(as)+1, "action")
			if k == 0 {
				break
			}
			names = append(names, as[k-1].name)
			x.Note("action %s", as[k-1].name)
			as[k-1].do()
		}
		if len(names) > 0 {
			x.Nontrivial()
		}
		// First without the peer reading: a write that is waiting for room in the send buffer stays blocked. A read that
		// was started before it (with nothing on the write side to flush first) is registered with the poller on its
		// own and must go on consuming what the peer sent — "application writes never swallow the continuation of a
		// read". (No pings or close from the peer in this judgement: their replies are flushed by the read path itself,
		// which may rightly wait behind the blocked write.)
		if e.rawT {
			for i := 0; i < 60 && kern.Readable(e.epfd); i++ {
				ioc.PollOne()
			}
			if c := e.readInfl; c != nil && c.calls == 0 && e.cleanRead && e.pings == 0 && !e.peerClosed && e.writeInFlight() && kern.Inq(e.objfd) > 0 {
				x.Fail("ws/read-starved-by-blocked-write", "%s was in flight before the write; the write now waits for room in the send buffer (the peer is not reading), %d bytes from the peer sit unread in the socket and the read makes no progress (actions %v)", c.kind, kern.Inq(e.objfd), names)
			}
		}
		// run the loop to quiescence: the peer's bytes are in the socket; nothing else will happen
		for i := 0; i < 400; i++ {
			e.drainPeer()
			ready := kern.Readable(e.epfd)
			n, _ := ioc.PollOne()
			if !ready && n == 0 {
				break
			}
		}
		e.drainPeer()
		x.Note("sent=%v consumed=%v", e.sent, e.consumed)
		// writes complete exactly once
		for i, w := range e.writes {
			if w.calls != 1 {
				x.Fail("ws/write-callback-lost", "AsyncWrite#%d: callback ran %d times after the loop went quiescent (actions %v)", i+1, w.calls, names)
			}
		}
		for _, fc := range e.flushes {
			if fc.calls != 1 {
				x.Fail("ws/flush-callback-lost", "AsyncFlush: callback ran %d times after the loop went quiescent (actions %v)", fc.calls, names)
			}
		}
		if e.closeC2 != nil && e.closeC2.calls != 1 {
			x.Fail("ws/close-callback-lost", "the second AsyncClose (State() now %s): callback ran %d times after the loop went quiescent (actions %v)", e.ws.State(), e.closeC2.calls, names)
		}
		if e.closeC != nil && e.closeC.calls != 1 {
			x.Fail("ws/close-callback-lost", "AsyncClose: callback ran %d times after the loop went quiescent (actions %v)", e.closeC.calls, names)
		}
		// what was consumed is a prefix of what was sent
		if len(e.consumed) > len(e.sent) {
			x.Fail("ws/frames-invented", "callbacks received %d frames, the peer sent %d", len(e.consumed), len(e.sent))
		}
		for i, cf := range e.consumed {
			s := e.sent[i]
			if cf.Op != s.Op || (s.Op != wsref.OpClose && string(cf.Payload) != string(s.Payload)) {
				x.Fail("ws/read-result-not-own", "the %d-th frame handed to a callback is %v, the peer's %d-th frame was %v", i, cf, i, s)
			}
		}
		waiting := 0
		if e.readInfl != nil && e.readInfl.calls == 0 {
			waiting = 1
			if len(e.consumed) < len(e.sent) {
				x.Fail("ws/read-callback-lost", "%s is still without a callback after the loop went quiescent, although the peer's frame %d (%v) was never consumed (actions %v)", e.readInfl.kind, len(e.consumed), e.sent[len(e.consumed)], names)
			}
		}
		// outbound side
		frames, rest, _ := wsref.ParseAll(e.out, 1<<20)
		if len(rest) != 0 {
			x.Fail("ws/wire-interleaved-or-truncated", "the peer received %d bytes that are not whole frames after %d frames (actions %v)", len(rest), len(frames), names)
		}
		var app, pongs []wsref.Frame
		closes := 0
		for _, p := range frames {
			if !p.Masked {
				x.Fail("ws/wire-interleaved-or-truncated", "the peer received an unmasked frame %v: bytes of different frames were mixed (actions %v)", p.Frame, names)
			}
			switch p.Op {
			case wsref.OpBinary, wsref.OpText:
				app = append(app, p.Frame)
			case wsref.OpPong:
				pongs = append(pongs, p.Frame)
			case wsref.OpClose:
				closes++
			}
		}
		var wantApp []wsref.Frame
		for i, w := range e.writes {
			if w.err == nil && w.calls == 1 {
				wantApp = append(wantApp, wsref.Frame{Fin: true, Op: wsref.OpBinary, Payload: e.wpay[i]})
			}
		}
		if i, ok := sameFrames(app, wantApp); !ok {
			x.Fail("ws/app-frames-on-wire", "application frames at the peer %v, successfully written %v (difference at %d; actions %v)", app, wantApp, i, names)
		}
		var wantPongs []wsref.Frame
		for _, cf := range e.consumed {
			if cf.Op == wsref.OpPing {
				wantPongs = append(wantPongs, wsref.Frame{Fin: true, Op: wsref.OpPong, Payload: cf.Payload})
			}
		}
		// a pong queued by the last read may still be waiting for the next flush: a prefix is enough
		if len(pongs) > len(wantPongs) {
			x.Fail("ws/pong-duplicated", "%d pongs at the peer for %d pings consumed (actions %v)", len(pongs), len(wantPongs), names)
		}
		for i := range pongs {
			if string(pongs[i].Payload) != string(wantPongs[i].Payload) {
				x.Fail("ws/pong-payload", "pong %d carries %x, ping carried %x", i, pongs[i].Payload, wantPongs[i].Payload)
			}
		}
		if closes > 1 {
			x.Fail("ws/second-close", "%d close frames at the peer", closes)
		}
		if got := ioc.Pending(); got != int64(waiting) {
			x.Fail("ws/pending-after-quiescence", "IO.Pending()=%d after quiescence, %d reads are legitimately waiting (actions %v)", got, waiting, names)
		}
		x.Outcome(fmt.Sprintf("r%d/w%d/sent%d/consumed%d/wait%d", len(e.reads), len(e.writes), len(e.sent), len(e.consumed), waiting))
	}
}

func c17DFS(tier string) *engine.DFS {
	depth, dev := 5, 1
	if tier == "thorough" {
		depth, dev = 7, 2
	}
	return &engine.DFS{Name: "wsrw@" + tier, Body: c17Body(depth), Procs: 16, WorkerProcs: 1, GCEvery: 50, ShardDepth: 3, MaxDeviations: dev, MaxPoints: 100, HangTimeout: 30 * time.Second}
}

func C17(tier string) *engine.Report {
	rep := engine.NewReport("C17", tier, "exploration")
	var tot engine.DFSTotals
	d := c17DFS(tier)
	d.Budget = 4 * time.Minute
	if tier == "thorough" {
		d.Budget = 25 * time.Minute
	}
	tot.Add(d.Run(), rep)
	// a second session on the same Stream (this driver attaches the transport directly, never through the handshake)
	tot.Add(c18ResumedDFS(tier).Run(), rep)
	// the same two operations in flight on a stream the program holds no reference to, across garbage collections
	gres := c17GCDFS(tier).Run()
	tot.Add(gres, rep)
	rep.Coverage["unreferenced_stream"] = map[string]any{"executions": gres.Executions, "finished": gres.Exhaustive, "violations": len(gres.Violations)}
	tot.Fill(rep, "all action sequences up to the depth bound over a real Stream + AsyncAdapter + socketpair: start AsyncNextFrame/AsyncNextMessage, AsyncWrite, AsyncClose, peer data/ping/close, poll; read-handler behaviours (start a read, a write, both in either order) are deviations; "+
		"then the loop is run to quiescence (epoll fd not readable and PollOne idle) and callbacks, consumed frames, the peer's byte stream and Pending() are judged; non-trivial = at least one action; plus, over real TCP, every shape of an earlier session on the same Stream (dropped with unread input, queued replies, a failed write) x blocking/async handshake: the server of the second session receives exactly the first message written, nothing of the earlier one; plus a stream the program holds no reference to, with a read and a blocked 48 KB write in flight: {read | write | neither completes first} x re-arming read x read API x start order x 4 x runtime.GC(): operations in flight stay reachable (weak pointers) and complete exactly once", d.MaxDeviations)
	rep.Coverage["depth"] = map[string]int{"quick": 5, "thorough": 7}[tier]
	return rep
}

func C17Replay(v engine.Violation, log func(string)) *engine.Violation {
	if strings.HasPrefix(v.Config, "resumed-session@") {
		return c18ResumedDFS(v.Config[16:]).ReplayChoices(v.Choices)
	}
	if strings.HasPrefix(v.Config, "unreferenced@") {
		runtime.GC()
		return c17GCDFS(v.Config[len("unreferenced@"):]).ReplayChoices(v.Choices)
	}
	return c17DFS(v.Config[5:]).ReplayChoices(v.Choices)
}
