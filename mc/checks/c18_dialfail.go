package checks

// C18, family "dialfail": "otherwise the handshake reports an error and leaves the stream terminated; a stream can be
// handshaken again after a failure" when the failure happens before there is a response at all — the dial itself, or
// (wss) the TLS session. ws:// and wss:// x {nothing listens on the port | the peer accepts and closes at once | the
// peer accepts, sends bytes that are neither TLS nor HTTP, and closes} x blocking | asynchronous x two attempts in a
// row, then (ws only) a third against a conforming server of the handshake driver is NOT made here (the retry families
// do that). Oracle per attempt: no panic, a non-nil error (asynchronously: the callback exactly once), State()
// terminated, CloseNextLayer harmless; after both attempts the descriptor census is what it was.

import (
	"crypto/tls"
	"fmt"
	"syscall"
	"time"

	"github.com/talostrading/sonic"
	"github.com/talostrading/sonic/codec/websocket"
	"verifmc/engine"
	"verifmc/kern"
)

func c18DialFailBody(x *engine.X) {
	c13Init()
	scheme := []string{"ws", "wss"}[x.Pick(2, "scheme")]
	peer := x.Pick(3, "peer: nothing listens | accepts and closes | accepts, sends garbage, closes")
	async := x.Pick(2, "Handshake | AsyncHandshake") == 1
	ioc, err := sonic.NewIO()
	if err != nil {
		engine.HarnessError("NewIO: %v", err)
	}
	defer ioc.Close()
	lfd, addr, port, err := kern.TCPListener()
	if err != nil {
		engine.HarnessError("listener: %v", err)
	}
	if peer == 0 {
		syscall.Close(lfd)
		lfd = -1
	}
	stop := make(chan struct{})
	served := make(chan struct{})
	if lfd >= 0 {
		go func() {
			defer close(served)
			for {
				select {
				case <-stop:
					return
				default:
				}
				c, err := kern.AcceptRaw(lfd, 50*time.Millisecond)
				if err != nil {
					continue
				}
				if peer == 2 {
					syscall.Write(c, []byte("\x00\x01 this is neither TLS nor HTTP\r\n\r\n"))
				}
				kern.Abort(c)
			}
		}()
	} else {
		close(served)
	}
	defer func() {
		close(stop)
		<-served
		if lfd >= 0 {
			syscall.Close(lfd)
		}
	}()
	var tc *tls.Config
	if scheme == "wss" {
		tc = &tls.Config{InsecureSkipVerify: true}
	}
	ws, err := websocket.NewWebsocketStream(ioc, tc, websocket.RoleClient)
	if err != nil {
		engine.HarnessError("NewWebsocketStream: %v", err)
	}
	url := fmt.Sprintf("%s://%s/", scheme, kern.AddrString(addr, port))
	x.Note("%s peer=%d async=%v", url, peer, async)
	x.Nontrivial()
	before := kern.Census(c13Dir)
	for attempt := 1; attempt <= 2; attempt++ {
		var herr error
		calls := 0
		x.Guard("handshake/dial-failure/panic", func() {
			if async {
				ws.AsyncHandshake(url, func(err error) { calls++; herr = err })
				dl := time.Now().Add(10 * time.Second)
				for calls == 0 && time.Now().Before(dl) {
					ioc.RunOneFor(20 * time.Millisecond)
				}
			} else {
				herr = ws.Handshake(url)
				calls = 1
			}
		})
		if calls != 1 {
			x.Fail("handshake/async-callback-lost", "attempt %d against %s (peer %d): the handshake callback ran %d times within 10 s", attempt, url, peer, calls)
		}
		if herr == nil {
			x.Fail("handshake/dial-failure/no-error", "attempt %d against %s (peer %d) reported success", attempt, url, peer)
		}
		if st := ws.State(); st != websocket.StateTerminated {
			x.Fail("handshake/dial-failure/state", "attempt %d against %s failed with %v and left State()=%s", attempt, url, herr, st)
		}
		x.Guard("handshake/dial-failure/panic", func() { ws.CloseNextLayer() })
	}
	after := kern.Census(c13Dir)
	if d := censusDiff(before, after); d != "" {
		x.Fail("handshake/failed/fd-leak", "two failed handshakes against %s (peer %d) changed the descriptor table: %s", url, peer, d)
	}
	x.Outcome(fmt.Sprintf("dialfail/%s/%d/%v", scheme, peer, async))
}

func c18DialFailDFS(tier string) *engine.DFS {
	return &engine.DFS{Name: "dialfail@" + tier, Body: c18DialFailBody, Procs: 4, WorkerProcs: 1, ShardDepth: 1, MaxDeviations: 0, MaxPoints: 20, HangTimeout: 90 * time.Second}
}
